#!/usr/bin/env python3
"""check.py <ID> [--tier quick|thorough] [--replay FILE] [--record-baseline]

Decides one of the claimed properties by contract-based deductive verification of the real code:
Verus units (functions copied from /repo's working tree on every run and annotated in place) and Kani
units (contracts proved inside a scratch copy of the real crate).  See DESIGN.md §3.

exit 0  every baseline obligation was regenerated from the current tree and discharged
exit 1  + "VIOLATION property=<id> replay=<path>[ no-failing-input-found]": a baseline obligation is refuted
exit 2  undecided (anchor lost, construct outside the subset, resource limit, tool error) - never a VIOLATION
"""
import argparse
import json
import os
import re
import subprocess
import sys
import time

HERE = os.path.dirname(os.path.abspath(__file__))
sys.path.insert(0, os.path.join(HERE, 'tools'))

import common  # noqa: E402
import kunit  # noqa: E402
import vunit  # noqa: E402
from rsx import RsxError  # noqa: E402
from props import PROPS  # noqa: E402


def log(*a):
    print(*a, flush=True)


# ---------------------------------------------------------------------------------------------
# Verus units

def run_verus_unit(cfg, work, seed, rlimit, repo=None):
    repo = repo or common.REPO
    unit = vunit.parse_spec(os.path.join(HERE, 'contracts', cfg['unit'] + '.spec'))
    res = {'unit': cfg['unit'], 'backend': 'verus', 'obligations': [], 'discharged': [], 'failed': {}, 'undecided': [],
           'assumed': [], 'functions': [], 'vacuity': {}, 'edit_stats': {}, 'assumption_scan': [], 'cmd': '',
           'wall_s': 0.0, 'smt_ms': None, 'items': [], 'clauses': {}}
    t0 = time.time()
    try:
        g = vunit.generate(unit, repo)
    except RsxError as e:
        res['undecided'].append('extraction: %s' % e)
        res['wall_s'] = time.time() - t0
        return res
    g.unit_name = unit['name']
    path = os.path.join(work, '%s_gen.rs' % cfg['unit'])
    with open(path, 'w') as f:
        f.write(g.text)
    r = vunit.run_verus(path, rlimit=rlimit, seed=seed)
    c = vunit.classify(g, r)
    res['cmd'] = r['cmd']
    res['smt_ms'] = c.get('smt_ms')
    res['verus_total_ms'] = c.get('total_ms')
    res['verified_fns'] = c['verified']
    res['obligations'] = list(g.obligations)
    res['assumed'] = list(g.assumed)
    res['contract_text'] = g.contract_text
    res['edit_stats'] = g.edit_stats
    res['items'] = g.items
    res['failed'] = c['failed']
    res['undecided'] = c['undecided']
    if cfg.get('safety_not_property'):
        # in this unit arithmetic / callee-precondition safety is not part of the property (e.g. `len + 1` of a Vec
        # cannot overflow in Rust but Verus does not know): a failing safety obligation alone is undecided, not refuted
        for n in [n for n in res['failed'] if n.endswith('/safety')]:
            res['undecided'].append('safety obligation %s not discharged (not a property clause in this unit): %s'
                                    % (n, '; '.join(res['failed'].pop(n))[:300]))
    res['raw'] = r.get('raw', '')[-6000:]
    res['assumption_scan'] = common.scan_assumptions(g.text, 'verus unit %s (generated text incl. preamble)' % cfg['unit'])
    for f in g.functions:
        fs = f['spec']
        res['functions'].append({'fn': f['qual'], 'source': '%s:%d' % (f['source'], f['src_line']),
                                 'sha256_16': f['sha256_16'], 'backend': 'verus',
                                 'status': 'assumed (external_body)' if f['external'] else 'contract',
                                 'obligations': len(f['obligations'])})
        for kind in ('requires', 'ensures'):
            for cl in getattr(fs, kind):
                res['clauses']['%s/%s/%s#%s' % (unit['name'], f['qual'], kind, cl.label)] = cl.text
    failed_fns = set()
    for name in c['failed']:
        m = re.match(r'[^/]+/([^/]+)/', name)
        if m:
            failed_fns.add(m.group(1))
    if not c['undecided']:
        for name in g.obligations:
            fnq = name.split('/')[1]
            if name in c['failed']:
                continue
            # an obligation of a function with some *other* failing obligation is still discharged only if
            # Verus reported that specific clause as fine; with --multiple-errors every failing clause is listed
            res['discharged'].append(name)
    # vacuity probe: assert(false) at the start of every contracted body must FAIL everywhere
    if not c['undecided'] and not c['failed']:
        try:
            gv = vunit.generate(unit, repo, vacuity_fn='*')
            gv.unit_name = unit['name']
            vpath = os.path.join(work, '%s_vacuity.rs' % cfg['unit'])
            with open(vpath, 'w') as f:
                f.write(gv.text)
            rv = vunit.run_verus(vpath, rlimit=rlimit, seed=seed)
            cv = vunit.classify(gv, rv)
            probed = [f['qual'] for f in gv.functions if not f['external']]
            hit = set()
            for name, msgs in cv['failed'].items():
                if any('VACUITY-PROBE' in m for m in msgs):
                    hit.add(name.split('/')[1])
            missing = [q for q in probed if q not in hit]
            res['vacuity'] = {'probed': len(probed), 'probe_failed_as_required': len(probed) - len(missing),
                              'vacuous': missing}
            if missing:
                res['undecided'].append('vacuity: assert(false) verified in %s (contradictory precondition?)' % missing)
        except RsxError as e:
            res['undecided'].append('vacuity extraction: %s' % e)
    res['wall_s'] = time.time() - t0
    return res


# ---------------------------------------------------------------------------------------------
# Kani units

def prepare_workrepo(work, kani_cfgs, oracle_cfgs, side_cfg=None):
    wr = common.sync_repo(work)
    if side_cfg:
        import side
        side.mount_battery(wr, side_cfg)
    for k in kani_cfgs:
        common.append_file(os.path.join(wr, k['mount']),
                           '\n#[cfg(any(kani, test))]\n#[path = "%s/kani/%s.rs"]\nmod %s;\n' % (HERE, k['unit'], k['mod']))
    for o in oracle_cfgs:
        common.append_file(os.path.join(wr, o['mount']),
                           '\n#[cfg(all(test, not(kani)))]\n#[path = "%s/replay/%s.rs"]\nmod %s;\n' % (HERE, o['unit'], o['mod']))
    return wr


def run_kani_units(kani_cfgs, wr, work, tier):
    res = {'backend': 'kani', 'obligations': [], 'discharged': [], 'failed': {}, 'undecided': [], 'bounded': [],
           'bounded_discharged': [], 'harnesses': [], 'cmd': '', 'wall_s': 0.0, 'covers': {'satisfied': 0, 'total': 0},
           'unreachable': 0, 'assumption_scan': [], 'solver_s': 0.0}
    hs = []
    meta = {}
    for k in kani_cfgs:
        with open(os.path.join(HERE, 'kani', k['unit'] + '.rs')) as f:
            res['assumption_scan'] += common.scan_assumptions(f.read(), 'kani unit %s (harness text)' % k['unit'])
        for h, info in k['harnesses'].items():
            if info.get('tier') == 'thorough' and tier != 'thorough':
                continue
            hs.append(h)
            meta[h] = dict(info, unit=k['unit'])
    if not hs:
        return res
    r = kunit.run_kani(wr, hs, timeout=3000, log_path=os.path.join(work, 'kani.log'))
    res['cmd'] = r['cmd']
    res['wall_s'] = r['wall_s']
    res['text'] = r['text']
    if r['status'] != 'ran':
        res['undecided'].append('kani %s' % r['status'])
    if r['compile_error']:
        res['undecided'].append('kani build/harness error: %s' % r['compile_error'])
    name_status = {}
    named_in_h = {}
    for h in hs:
        info = meta[h]
        hr = r['harnesses'].get(h)
        bounded = info['kind'] != 'complete'
        if hr is None or hr['status'] is None or not hr['checks']:
            why = 'CBMC ran out of memory / crashed' if hr and 'CBMC failed' in hr.get('body_tail', '') else 'no verdict'
            res['undecided'].append('harness %s: %s' % (h, why))
            continue
        names, ok = [], []
        unreachable = 0
        safety_total = safety_ok = 0
        covers_sat = covers_dead = 0
        cover_status = {}
        safety_fail = []
        for c in hr['checks']:
            d = c['desc']
            if d.startswith('OBL '):
                n = d[4:].strip()
                st = name_status.setdefault(n, {'SUCCESS': [], 'FAILURE': [], 'UNREACHABLE': [], 'OTHER': [], 'bounded': []})
                key = c['status'] if c['status'] in ('SUCCESS', 'FAILURE', 'UNREACHABLE') else 'OTHER'
                st[key].append(h)
                if key == 'SUCCESS':
                    st['bounded'].append(bounded)
                if key == 'FAILURE':
                    res['failed'].setdefault(n, []).append('%s: FAILURE (harness %s)' % (c['loc'], h))
                named_in_h.setdefault(h, set()).add(n)
            elif d.startswith('COVER '):
                # the same cover can occur once per (const-generic) instantiation inside one harness: it is
                # satisfied if any instance is, dead if every instance sits in a dead branch
                cover_status.setdefault(d, []).append(c['status'])
            else:
                if c['status'] == 'UNREACHABLE':
                    unreachable += 1
                    continue
                safety_total += 1
                if c['status'] == 'SUCCESS':
                    safety_ok += 1
                elif c['status'] == 'FAILURE':
                    safety_fail.append('%s @ %s' % (d, c['loc']))
                else:
                    res['undecided'].append('%s: check "%s" is %s' % (h, d, c['status']))
        for d, sts in cover_status.items():
            if all(x == 'UNREACHABLE' for x in sts):
                covers_dead += 1
                continue
            res['covers']['total'] += 1
            if 'SATISFIED' in sts:
                res['covers']['satisfied'] += 1
                covers_sat += 1
            else:
                res['undecided'].append('vacuity: cover "%s" in %s is %s' % (d, h, sorted(set(sts))))
        if covers_sat == 0 and hr['status'] == 'SUCCESSFUL':
            res['undecided'].append('vacuity: harness %s has no satisfied cover' % h)
        sname = '%s/%s/safety' % (info['unit'], h)
        if safety_fail:
            res['failed'].setdefault(sname, []).extend(safety_fail)
            sok = False
        else:
            sok = hr['status'] == 'SUCCESSFUL' or (safety_total == safety_ok and safety_total > 0)
        res['unreachable'] += unreachable
        res['solver_s'] += hr['time_s'] or 0.0
        res['harnesses'].append({'harness': h, 'unit': info['unit'], 'kind': info['kind'], 'bound': info.get('bound'),
                                 'fn': info.get('fn'), 'status': hr['status'], 'checks': len(hr['checks']),
                                 'named_obligations': len(named_in_h.get(h, ())), 'safety_checks': safety_total,
                                 'safety_discharged': safety_ok, 'unreachable': unreachable, 'time_s': hr['time_s']})
        if bounded:
            res['bounded'].append(sname)
            if sok:
                res['bounded_discharged'].append(sname)
        else:
            res['obligations'].append(sname)
            if sok:
                res['discharged'].append(sname)
            res['safety_checks_discharged'] = res.get('safety_checks_discharged', 0) + safety_ok
    # named obligations are aggregated over the harnesses that state them: discharged iff SUCCESS in at least one
    # harness and FAILURE in none; an obligation that is UNREACHABLE everywhere is vacuous (undecided)
    for n, st in name_status.items():
        if st['OTHER']:
            res['undecided'].append('obligation %s: no verdict in %s' % (n, st['OTHER']))
        all_bounded = bool(st['bounded']) and all(st['bounded'])
        if not st['SUCCESS'] and not st['FAILURE']:
            res['undecided'].append('obligation %s is UNREACHABLE in every harness that states it (vacuous)' % n)
            continue
        is_bounded = all_bounded or (not st['SUCCESS'] and all(meta[h]['kind'] != 'complete' for h in st['FAILURE']))
        (res['bounded'] if is_bounded else res['obligations']).append(n)
        if st['SUCCESS'] and not st['FAILURE']:
            (res['bounded_discharged'] if is_bounded else res['discharged']).append(n)
    return res


def kani_counterexamples(kres, wr, work, kani_cfgs, failed_names):
    """re-run failing harnesses with concrete playback, then replay natively on the real code"""
    hs = sorted({m.group(1) for n in failed_names for d in kres['failed'].get(n, [])
                 for m in [re.search(r'harness (\w+)\)', d)] if m} |
                {n.split('/')[1] for n in failed_names if n.endswith('/safety') and n in kres['failed']})
    out = []
    if not hs:
        return out
    r = kunit.run_kani(wr, hs, timeout=3000, playback=True, log_path=os.path.join(work, 'kani_playback.log'))
    text = r['text']
    blocks = re.findall(r'Concrete playback unit test for `([^`]+)`:\s*```(.*?)```', text, re.S)
    replay_entry = {}
    for k in kani_cfgs:
        for h in k['harnesses']:
            replay_entry[h] = k
    for full, body in blocks:
        h = full.split('::')[-1]
        m = re.search(r'/// Check for `(\w+)`: (.*)', body)
        if not m or m.group(1) == 'cover':
            continue
        desc = m.group(2).strip().strip('"')
        vals = []
        for vm in re.finditer(r'vec!\[([0-9, ]*)\],?\s*$', body, re.M):
            if 'concrete_vals' in vm.group(0):
                continue
            vals.append([int(x) for x in vm.group(1).replace(' ', '').split(',') if x])
        comments = re.findall(r'^\s*// (.*)$', body, re.M)
        out.append({'harness': h, 'check': desc, 'concrete_vals': vals, 'values_as_printed_by_kani': comments,
                    'playback_test': body.strip()[:4000]})
    # native replay of each counterexample
    for ce in out[:6]:
        k = replay_entry.get(ce['harness'])
        if not k:
            continue
        env = dict(os.environ)
        env['VERIF_REPLAY_HARNESS'] = ce['harness']
        env['VERIF_REPLAY_VALS'] = ';'.join(','.join(str(b) for b in v) for v in ce['concrete_vals'])
        env['CARGO_NET_OFFLINE'] = 'true'
        rc_, t = common.run_group(['cargo', 'test', '--lib', '--offline', k['replay_test'], '--', '--nocapture', '--test-threads', '1'],
                                  cwd=wr, env=env, timeout=900)
        m = re.search(r"panicked at [^\n]*\n?([^\n]*)", t)
        ce['native_replay'] = {'cmd': 'VERIF_REPLAY_HARNESS=%s VERIF_REPLAY_VALS=%s cargo test --lib --offline %s -- --nocapture'
                               % (ce['harness'], env['VERIF_REPLAY_VALS'], k['replay_test']),
                               'panicked': bool(m), 'panic': (m.group(0)[:500] if m else None),
                               'confirmed': bool(m) and 'VERIF-' not in (m.group(0) if m else ''),
                               'tail': t[-1500:]}
    return out


# ---------------------------------------------------------------------------------------------
# native oracle for Verus units (no counterexample from the verifier)

def run_oracle(o, wr, seed, failed_names, iters, timeout=2400):
    env = dict(os.environ)
    env['VERIF_SEED'] = str(seed)
    env['VERIF_ITERS'] = str(iters)
    env['VERIF_OBLIGATIONS'] = ','.join(sorted(failed_names))
    env['CARGO_NET_OFFLINE'] = 'true'
    cmd = ['cargo', 'test', '--lib', '--offline', o['test'], '--', '--nocapture', '--test-threads', '1']
    t0 = time.time()
    rc, t = common.run_group(cmd, cwd=wr, env=env, timeout=timeout)
    if rc is None:
        t += '\noracle timed out after %d s (a change that makes the code under test loop shows up like this)' % timeout
    fails = []
    for m in re.finditer(r'VERIF-ORACLE-FAIL obligation=(\S+) (.*)$', t, re.M):
        fails.append({'obligation': m.group(1), 'input': m.group(2)[:2000]})
    m = re.search(r'VERIF-ORACLE-DONE cases=(\d+)', t)
    ran = bool(m)
    return {'cmd': 'VERIF_SEED=%d VERIF_ITERS=%d %s' % (seed, iters, ' '.join(cmd)), 'ran': ran,
            'cases': int(m.group(1)) if m else 0, 'fails': fails, 'wall_s': time.time() - t0,
            'tail': '' if ran else t[-3000:]}


# ---------------------------------------------------------------------------------------------

def main():
    ap = argparse.ArgumentParser()
    ap.add_argument('prop')
    ap.add_argument('--tier', default=os.environ.get('VERIF_TIER', 'quick'))
    ap.add_argument('--replay')
    ap.add_argument('--record-baseline', action='store_true')
    a = ap.parse_args()
    pid = a.prop
    if pid not in PROPS:
        log('unknown or unclaimed property %s' % pid)
        return 2
    P = PROPS[pid]
    tier = 'thorough' if a.tier == 'thorough' else 'quick'
    seed = int(os.environ.get('VERIF_SEED', '0') or 0)
    t0 = time.time()
    work = common.workdir(pid)

    if a.replay:
        return replay_file(pid, P, a.replay, work)

    import side  # syntactic side obligations (never alarm without a failing native replay)
    baseline_all = common.load_json(os.path.join(HERE, 'baseline', 'obligations.json'), {})
    baseline = set(baseline_all.get(pid, []))
    flt = re.compile(P.get('obl_filter', '.'))
    excl = re.compile(P['obl_exclude']) if P.get('obl_exclude') else None

    def mine(n):
        return bool(flt.search(n)) and not (excl and excl.search(n))

    vres = []
    for v in P.get('verus', []):
        log('[%s] verus unit %s ...' % (pid, v['unit']))
        r = run_verus_unit(v, work, seed, rlimit=v.get('rlimit', 20))
        log('[%s]   %d obligations, %d discharged, %d failed, %d undecided, %.1fs' % (
            pid, len(r['obligations']), len(r['discharged']), len(r['failed']), len(r['undecided']), r['wall_s']))
        vres.append(r)
    kcfgs = P.get('kani', [])
    bncfgs = P.get('bounded_native', [])
    ocfgs = P.get('oracles', []) + [b for b in bncfgs if not b.get('shared_with_oracle')]
    wr = None
    kres = None
    if kcfgs:
        wr = prepare_workrepo(work, kcfgs, ocfgs, P.get('side'))
        log('[%s] kani units %s ...' % (pid, [k['unit'] for k in kcfgs]))
        kres = run_kani_units(kcfgs, wr, work, tier)
        log('[%s]   %d obligations, %d discharged, %d failed, %d undecided, %.1fs' % (
            pid, len(kres['obligations']) + len(kres['bounded']), len(kres['discharged']) + len(kres['bounded_discharged']),
            len(kres['failed']), len(kres['undecided']), kres['wall_s']))

    # bounded native stand-ins (exhaustive up to a stated bound; never counted as proved)
    bnres = []
    for bn in bncfgs:
        if wr is None:
            wr = prepare_workrepo(work, kcfgs, ocfgs, P.get('side'))
        log('[%s] bounded native stand-in %s (%s) ...' % (pid, bn['unit'], bn['bound']))
        env_extra = dict(bn.get('env_thorough', {})) if tier == 'thorough' else dict(bn.get('env', {}))
        os.environ.update(env_extra)
        orc = run_oracle(bn, wr, seed, [], 0, timeout=600 if tier == 'quick' else 5400)
        bnres.append({'unit': bn['unit'], 'bound': bn['bound'] if tier == 'quick' else bn.get('bound_thorough', bn['bound']),
                      'cases': orc['cases'], 'ran': orc['ran'], 'fails': orc['fails'], 'wall_s': round(orc['wall_s'], 1), 'cmd': orc['cmd'],
                      'tail': orc['tail'][-600:]})
        log('[%s]   %d cases, %d failing obligations, %.1fs' % (pid, orc['cases'], len(orc['fails']), orc['wall_s']))

    # thorough: proof stability under other SMT seeds / halved rlimit
    stability = []
    if tier == 'thorough':
        for v in P.get('verus', []):
            for s2, rl in ((seed + 11, 20), (seed + 23, 20), (seed + 37, 10)):
                r2 = run_verus_unit(v, work, s2, rlimit=rl)
                stability.append({'unit': v['unit'], 'seed': s2, 'rlimit': rl, 'discharged': len(r2['discharged']),
                                  'failed': sorted(r2['failed']), 'undecided': r2['undecided'][:3]})

    obligations, discharged, failed, undecided, assumed = [], [], {}, [], []
    linked = []
    bounded, bounded_ok = [], []
    for r in vres:
        obligations += [n for n in r['obligations'] if mine(n)]
        discharged += [n for n in r['discharged'] if mine(n)]
        for n in r['assumed']:
            if not mine(n):
                continue
            # an assumed callee contract that another unit of THIS run discharges with the same text
            # (same function, same requires, same clause) is linked, not assumed
            _, qual, cl = n.split('/', 2)
            label = cl.split('#', 1)[1] if '#' in cl else None
            link = None
            for r2 in vres:
                if r2 is r:
                    continue
                n2 = '%s/%s/%s' % (r2['unit'], qual, cl)
                ct1, ct2 = r.get('contract_text', {}).get(qual), r2.get('contract_text', {}).get(qual)
                if (n2 in r2['discharged'] and ct1 and ct2 and ct1['requires'] == ct2['requires']
                        and label in ct1['ensures'] and ct1['ensures'][label] == ct2['ensures'].get(label)):
                    link = n2
            if link:
                linked.append('%s == %s (callee contract discharged in unit %s)' % (n, link, link.split('/')[0]))
            else:
                assumed.append(n)
        for n, d in r['failed'].items():
            if mine(n):
                failed[n] = d
        undecided += ['verus/%s: %s' % (r['unit'], u) for u in r['undecided']]
    if kres:
        obligations += kres['obligations']
        discharged += kres['discharged']
        bounded += kres['bounded']
        bounded_ok += kres['bounded_discharged']
        failed.update(kres['failed'])
        undecided += ['kani: %s' % u for u in kres['undecided']]
    bn_inputs = {}
    for b in bnres:
        cfg = next(c for c in bncfgs if c['unit'] == b['unit'])
        if not b['ran']:
            undecided.append('bounded native stand-in %s did not run: %s' % (b['unit'], b['tail'][-300:]))
            continue
        bad = {f['obligation']: f['input'] for f in b['fails']}
        for n in cfg['obligations']:
            bounded.append(n)
            if n in bad:
                failed.setdefault(n, []).append('bounded native check: ' + bad[n][:400])
                bn_inputs[n] = bad[n]
            else:
                bounded_ok.append(n)
    for s in stability:
        if s['failed'] or s['undecided']:
            undecided.append('unstable proof: unit %s seed %d rlimit %d -> failed %s undecided %s' % (
                s['unit'], s['seed'], s['rlimit'], s['failed'], s['undecided']))

    # known findings (known_findings.txt, read-only): identified by obligation AND the failure signature, removed
    # from the failed set before anything is judged - a different failure of the same obligation still counts
    kf = common.known_findings()
    known_hits = []
    for n in list(failed):
        for k in kf['known']:
            if k['property'] == pid and k['obligation'] == n and (not k['match'] or any(k['match'] in d for d in failed[n])):
                known_hits.append((n, '%s :: %s' % ('; '.join(failed[n])[:300], k['what'][:200])))
                del failed[n]
                break

    if a.record_baseline:
        if failed or undecided:
            log('refusing to record a baseline with failures/undecided: %s %s' % (list(failed)[:5], undecided[:5]))
            return 2
        baseline_all[pid] = sorted(set(discharged) | set(bounded_ok))
        common.write_json(os.path.join(HERE, 'baseline', 'obligations.json'), baseline_all)
        log('[%s] baseline recorded: %d obligations' % (pid, len(baseline_all[pid])))
        baseline = set(baseline_all[pid])

    ok_all = set(discharged) | set(bounded_ok)
    missing = sorted(baseline - ok_all)
    refuted = sorted(n for n in failed if n in baseline)
    unbaselined_fail = sorted(n for n in failed if n not in baseline)
    for n in unbaselined_fail:
        undecided.append('obligation %s fails but was never discharged on the pinned tree (not in baseline): %s' % (n, failed[n][:1]))
    lost = [n for n in missing if n not in failed]
    if lost and not undecided:
        undecided.append('baseline obligations not regenerated from the current tree: %s' % lost[:6])

    # side obligations (syntactic + native replay battery)
    if P.get('side') and wr is None:
        wr = prepare_workrepo(work, kcfgs, ocfgs, P.get('side'))
    side_res = side.run(pid, P, common.REPO, wr, work, tier, seed) if P.get('side') else None

    violations = []
    replay_path = None
    suffix = ''
    if refuted or (side_res and side_res.get('violations')):
        os.makedirs(os.path.join(HERE, 'replays'), exist_ok=True)
        replay_path = os.path.join(HERE, 'replays', '%s-%s.json' % (pid, time.strftime('%Y%m%d-%H%M%S')))
        rep = {'property_id': pid, 'failed_obligations': {n: failed[n] for n in refuted}, 'tier': tier, 'seed': seed,
               'verifier_output': {}, 'counterexamples': [], 'oracle': None,
               'side_violations': (side_res or {}).get('violations', [])}
        found_input = bool(rep['side_violations'])
        rep['bounded_native_inputs'] = {n: bn_inputs[n] for n in refuted if n in bn_inputs}
        if rep['bounded_native_inputs']:
            found_input = True
        kfailed = [n for n in refuted if kres and n in kres['failed']]
        vfailed = [n for n in refuted if n not in kfailed and n not in bn_inputs]
        if kfailed:
            ces = kani_counterexamples(kres, wr, work, kcfgs, kfailed)
            rep['counterexamples'] = ces
            if any(c.get('native_replay', {}).get('confirmed') for c in ces) or ces:
                found_input = found_input or bool(ces)
            rep['verifier_output']['kani'] = '\n'.join(
                l for l in kres.get('text', '').splitlines() if 'Failed Checks' in l or 'VERIFICATION' in l)[:4000]
        if vfailed:
            for r in vres:
                if any(n in r['failed'] for n in vfailed):
                    rep['verifier_output']['verus/' + r['unit']] = r.get('raw', '')[-8000:]
            for o in ocfgs:
                if any(n.startswith(o['unit'] + '/') for n in vfailed):
                    if wr is None:
                        wr = prepare_workrepo(work, kcfgs, ocfgs, P.get('side'))
                    log('[%s] native oracle %s: searching for a failing input on the real code ...' % (pid, o['unit']))
                    orc = run_oracle(o, wr, seed, vfailed, 20000 if tier == 'quick' else 200000)
                    rep['oracle'] = orc
                    if orc['fails']:
                        found_input = True
        if not found_input:
            suffix = ' no-failing-input-found'
        common.write_json(replay_path, rep)
        violations = refuted + [v['what'] for v in rep['side_violations']]

    # A Verus unit that could not be decided (construct outside the subset, lost anchor, rlimit) says nothing.  The native
    # oracle evaluates the same contract clauses on the real code; a concrete failing input it finds is a demonstrated
    # violation of a baseline obligation (with replay), so it is reported - anything else stays undecided (exit 2).
    if not violations and ocfgs and any(r['undecided'] for r in vres):
        if wr is None:
            wr = prepare_workrepo(work, kcfgs, ocfgs, P.get('side'))
        for o in ocfgs:
            if not any(r['unit'] == o['unit'] and r['undecided'] for r in vres):
                continue
            log('[%s] verus unit %s undecided; native oracle searches the real code for a contract violation ...' % (pid, o['unit']))
            orc = run_oracle(o, wr, seed, [], 20000 if tier == 'quick' else 200000)
            hits = [f for f in orc['fails'] if f['obligation'] in baseline and mine(f['obligation'])]
            if hits:
                os.makedirs(os.path.join(HERE, 'replays'), exist_ok=True)
                replay_path = os.path.join(HERE, 'replays', '%s-%s.json' % (pid, time.strftime('%Y%m%d-%H%M%S')))
                common.write_json(replay_path, {'property_id': pid, 'tier': tier, 'seed': seed,
                                                'failed_obligations': {f['obligation']: ['native oracle: ' + f['input']] for f in hits},
                                                'verifier_output': {'verus/' + o['unit']: 'UNDECIDED: %s' % [r['undecided'] for r in vres if r['unit'] == o['unit']]},
                                                'counterexamples': [], 'oracle': orc, 'side_violations': []})
                for f in hits:
                    failed.setdefault(f['obligation'], []).append('native oracle (verifier undecided): ' + f['input'][:300])
                refuted = sorted({f['obligation'] for f in hits})
                violations = list(refuted)

    # thorough: native oracle sweep on the unchanged code (bounded evidence, not counted as proof)
    sweep = None
    if tier == 'thorough' and P.get('oracles') and not violations:
        if wr is None:
            wr = prepare_workrepo(work, kcfgs, ocfgs, P.get('side'))
        sweep = []
        for o in P.get('oracles', []):
            orc = run_oracle(o, wr, seed, [], 100000)
            # known findings are not news
            orc['fails'] = [f for f in orc['fails'] if not any(
                k['property'] == pid and k['obligation'] == f['obligation'] and k['match'] and k['match'] in f['input'] for k in kf['known'])]
            sweep.append({'unit': o['unit'], 'cases': orc['cases'], 'fails': orc['fails'][:5], 'ran': orc['ran'],
                          'wall_s': orc['wall_s'], 'tail': orc['tail'][-500:]})
            if orc['fails']:
                undecided.append('native oracle sweep found contract failures although the verifier discharged everything: %s'
                                 % orc['fails'][:2])
            if not orc['ran']:
                undecided.append('native oracle %s did not run: %s' % (o['unit'], orc['tail'][-300:]))

    wall = time.time() - t0
    write_evidence(pid, P, tier, seed, wall, vres, kres, obligations, discharged, bounded, bounded_ok, assumed, failed,
                   undecided, violations, known_hits, stability, side_res, sweep, baseline, bnres, linked)

    for n, what in known_hits:
        log('KNOWN-FINDING: property=%s %s (%s)' % (pid, n, what))
    for f in (side_res or {}).get('known', []):
        log('KNOWN-FINDING: property=%s %s %s' % (pid, f['obligation'], f['what'][:300]))
    if side_res and side_res.get('battery') and not side_res['battery']['ran']:
        undecided.append('side battery did not run: %s' % side_res['battery']['tail'][-400:])
    if violations:
        for n in refuted:
            log('[%s] REFUTED %s :: %s' % (pid, n, '; '.join(failed[n])[:400]))
        log('VIOLATION property=%s replay=%s%s' % (pid, replay_path, suffix))
        return 1
    if undecided:
        for u in undecided[:20]:
            log('[%s] UNDECIDED: %s' % (pid, str(u)[:600]))
        log('[%s] undecided (exit 2): no violation is reported for obligations the verifier could not decide' % pid)
        return 2
    log('[%s] OK: %d/%d obligations discharged (+%d/%d bounded, %d assumed) in %.1fs' % (
        pid, len(discharged), len(obligations), len(bounded_ok), len(bounded), len(assumed), wall))
    return 0


def write_evidence(pid, P, tier, seed, wall, vres, kres, obligations, discharged, bounded, bounded_ok, assumed, failed,
                   undecided, violations, known_hits, stability, side_res, sweep, baseline, bnres=None, linked=None):
    samples = []
    for r in vres:
        for n in r['discharged'][:400]:
            if n in r['clauses'] and len(samples) < 8 and (len(samples) % 2 == 0 or 'ok_' in n or 'span' in n):
                samples.append({'obligation': n, 'clause': r['clauses'][n], 'backend': 'verus'})
    if kres:
        for n in kres['discharged'][:6]:
            samples.append({'obligation': n, 'backend': 'kani/cbmc'})
    if not samples:
        samples = [{'obligation': n} for n in (discharged + bounded_ok)[:5]] or [{'note': 'no obligation discharged in this run'}]
    cmds = [r['cmd'] for r in vres if r['cmd']] + ([kres['cmd']] if kres and kres['cmd'] else [])
    functions = []
    for r in vres:
        functions += r['functions']
    if kres:
        located = {}

        def locate(unit, fn_text):
            """file:line and sha256 of the real items a harness puts under contract (best effort, by name)"""
            mount = next((k['mount'] for k in P.get('kani', []) if k['unit'] == unit), None)
            if not mount or not fn_text:
                return []
            key = (mount, fn_text)
            if key in located:
                return located[key]
            out = []
            try:
                from rsx import Source
                src = Source(os.path.join(common.REPO, mount))
                for ty, name in re.findall(r'(\w+)::(\w+)', fn_text):
                    for imp in [i for i in src.items if i.kind == 'impl' and i.name == ty]:
                        from rsx import parse_items
                        for it in parse_items(src.toks, imp.body_open + 1, imp.last):
                            if it.kind == 'fn' and it.name == name:
                                out.append({'item': '%s::%s' % (ty, name), 'source': '%s:%d' % (mount, src.line_of(src.toks[it.kw].start)),
                                            'sha256_16': src.sha(it)})
            except Exception as e:  # evidence nicety only
                out = [{'item': fn_text, 'note': 'not located: %s' % e}]
            located[key] = out
            return out

        for h in kres['harnesses']:
            functions.append({'fn': h.get('fn') or h['harness'], 'backend': 'kani/cbmc', 'harness': h['harness'],
                              'real_items': locate(h['unit'], h.get('fn') or ''),
                              'status': 'contract (complete harness)' if h['kind'] == 'complete' else 'BOUNDED: ' + str(h.get('bound')),
                              'checks': h['checks'], 'time_s': h['time_s']})
    assumptions = list(P.get('assumptions', []))
    for r in vres:
        assumptions += r['assumption_scan']
        if r['assumed']:
            assumptions.append('verus unit %s: %d contract clauses ASSUMED on external_body functions: %s' % (
                r['unit'], len(r['assumed']), ', '.join(sorted({n.split('/')[1] for n in r['assumed']}))))
    if kres:
        assumptions += kres['assumption_scan']
    ev = {
        'property_id': pid,
        'tier': tier,
        'seed': seed,
        'level': 'proof',
        'coverage': {
            'obligations': len(obligations),
            'discharged': len(discharged),
            'checker_cmd': ' ; '.join(cmds) or 'none',
            'trusted_base': P.get('trusted_base', []),
            'samples': samples,
            'explanation': P.get('explanation', ''),
            'obligation_counting_rule': 'one per named contract clause (ensures / loop invariant / decreases / OBL assert) plus one '
                                        '"safety" obligation per contracted function or harness (all verifier-generated checks: overflow, '
                                        'bounds, callee preconditions, termination for Verus; pointer/overflow/unwinding checks for Kani). '
                                        'Bounded harnesses and assumed (external_body) clauses are excluded from obligations/discharged.',
            'functions_under_contract': functions,
            'backends': {
                'verus': [{'unit': r['unit'], 'functions_verified': r.get('verified_fns'), 'obligations': len(r['obligations']),
                           'discharged': len(r['discharged']), 'smt_ms': r.get('smt_ms'), 'verus_total_ms': r.get('verus_total_ms'),
                           'wall_s': round(r['wall_s'], 2), 'extraction_edits': r['edit_stats'], 'items_copied': r['items'],
                           'vacuity': r['vacuity']} for r in vres],
                'kani': ({'harnesses': kres['harnesses'], 'cbmc_checks_discharged_in_complete_harnesses': kres.get('safety_checks_discharged', 0),
                          'unreachable_checks': kres['unreachable'], 'covers': kres['covers'], 'solver_s': round(kres['solver_s'], 2),
                          'wall_s': round(kres['wall_s'], 2)} if kres else None),
            },
            'bounded_native': bnres or [],
            'bounded': {'obligations': len(bounded), 'discharged': len(bounded_ok), 'names': bounded,
                        'note': 'bounded stand-ins: never counted in obligations/discharged above'},
            'assumed_clauses': assumed,
            'linked_callee_contracts': linked or [],
            'baseline_obligations': len(baseline),
            'failed': {n: d[:3] for n, d in failed.items()},
            'undecided': [str(u)[:500] for u in undecided],
            'known_findings_hit': [n for n, _ in known_hits],
            'proof_stability': stability,
            'side_obligations': side_res,
            'native_oracle_sweep': sweep,
            'not_carried': P.get('not_carried', ''),
        },
        'assumptions': assumptions,
        'wall_s': round(wall, 2),
        'violations': len(violations),
    }
    # runs against a scratch tree (VERIF_REPO=..., used for canaries / seeded changes) never touch the real evidence
    evdir = 'evidence' if common.REPO == '/repo' else os.path.join('.cache', 'evidence-scratch')
    common.write_json(os.path.join(HERE, evdir, '%s.json' % pid), ev)


def replay_file(pid, P, path, work):
    rep = common.load_json(path)
    if not rep:
        log('cannot read %s' % path)
        return 2
    log('[%s] replay of %s' % (pid, path))
    log(json.dumps({k: rep[k] for k in ('failed_obligations',) if k in rep}, indent=1)[:3000])
    wr = prepare_workrepo(work, P.get('kani', []), P.get('oracles', []) + [b for b in P.get('bounded_native', []) if not b.get('shared_with_oracle')], P.get('side'))
    rc = 0
    for ce in rep.get('counterexamples', []):
        nr = ce.get('native_replay')
        if not nr:
            continue
        k = next((k for k in P.get('kani', []) if ce['harness'] in k['harnesses']), None)
        if not k:
            continue
        env = dict(os.environ)
        env['VERIF_REPLAY_HARNESS'] = ce['harness']
        env['VERIF_REPLAY_VALS'] = ';'.join(','.join(str(b) for b in v) for v in ce['concrete_vals'])
        rc_, t = common.run_group(['cargo', 'test', '--lib', '--offline', k['replay_test'], '--', '--nocapture', '--test-threads', '1'],
                                  cwd=wr, env=env, timeout=900)
        m = re.search(r'panicked at [^\n]*\n?[^\n]*', t)
        log('[%s] %s: %s' % (pid, ce['harness'], m.group(0) if m else 'no panic on this tree'))
        if m and 'VERIF-' not in m.group(0):
            rc = 1
    orc = rep.get('oracle')
    if orc and orc.get('fails'):
        for o in P.get('oracles', []):
            r = run_oracle(o, wr, rep.get('seed', 0), list(rep.get('failed_obligations', {})), 20000)
            for f in r['fails'][:5]:
                log('[%s] oracle: %s %s' % (pid, f['obligation'], f['input'][:300]))
            if r['fails']:
                rc = 1
    if rep.get('bounded_native_inputs'):
        for bn in P.get('bounded_native', []):
            r = run_oracle(bn, wr, 0, [], 0)
            for f in r['fails'][:5]:
                log('[%s] bounded native: %s %s' % (pid, f['obligation'], f['input'][:300]))
            if r['fails']:
                rc = 1
    if rep.get('side_violations'):
        import side
        rc = max(rc, side.replay(pid, P, rep['side_violations'], wr))
    if rc:
        log('VIOLATION property=%s replay=%s' % (pid, path))
    else:
        log('[%s] replay: nothing fails on the current tree' % pid)
    return rc


if __name__ == '__main__':
    try:
        sys.exit(main())
    except RsxError as e:
        log('UNDECIDED: %s' % e)
        sys.exit(2)
