// Pure-specification lemmas that close the two inductions the Kani step contracts leave open
// (DESIGN §4.2, §4.4).  No code of /repo is involved: the hypotheses below are *transcriptions* of the
// postconditions asserted by the Kani harnesses (kani/gc_bitmask.rs: bitmask_iter_unmarked_init +
// bitmask_iter_next_step; kani/lexer_pos.rs: lexer_advance_contract); the transcription itself is the
// only unchecked link.
use vstd::prelude::*;

verus! {

// ---------------------------------------------------------------------------------------------
// (a) iter_unmarked: init + step contract  ==>  the yielded indices are exactly the clear bits below
//     len, in ascending order.
// ---------------------------------------------------------------------------------------------
// the ideal enumeration
spec fn unmarked_from(marked: Seq<bool>, pos: int, len: int) -> Seq<int>
    decreases len - pos,
{
    if pos >= len {
        Seq::<int>::empty()
    } else if !marked[pos] {
        seq![pos] + unmarked_from(marked, pos + 1, len)
    } else {
        unmarked_from(marked, pos + 1, len)
    }
}

// the step contract of UnmarkedIter::next, as proved by Kani for every state satisfying Inv(pos):
//   Some(i): pos <= i < len, bit i clear, every bit in [pos, i) set, and Inv(i + 1) holds afterwards
//   None   : every bit in [pos, len) set
spec fn step_contract(marked: Seq<bool>, len: int, step: Seq<Option<int>>) -> bool {
    marked.len() >= len && step.len() == len + 1 && forall|pos: int| 0 <= pos <= len ==> match #[trigger] step[pos] {
        Some(i) => pos <= i < len && !marked[i] && (forall|k: int| pos <= k < i ==> marked[k]),
        None => forall|k: int| pos <= k < len ==> marked[k],
    }
}

// what a caller observes: call next() until it returns None (the state after yielding i is Inv(i + 1))
spec fn run(step: Seq<Option<int>>, pos: int, len: int) -> Seq<int>
    decreases len - pos,
{
    if pos > len || pos < 0 || step.len() != len + 1 {
        Seq::<int>::empty()
    } else {
        match step[pos] {
            Some(i) => if pos <= i < len { seq![i] + run(step, i + 1, len) } else { Seq::<int>::empty() },
            None => Seq::<int>::empty(),
        }
    }
}

proof fn lemma_skip_marked(marked: Seq<bool>, pos: int, i: int, len: int)
    requires
        0 <= pos <= i <= len,
        forall|k: int| pos <= k < i ==> marked[k],
    ensures
        unmarked_from(marked, pos, len) == unmarked_from(marked, i, len),
    decreases i - pos,
{
    if pos < i {
        assert(marked[pos]);
        lemma_skip_marked(marked, pos + 1, i, len);
    }
}

proof fn lemma_iter_unmarked_exact(marked: Seq<bool>, len: int, step: Seq<Option<int>>, pos: int)
    requires
        0 <= pos <= len,
        step_contract(marked, len, step),
    ensures
        run(step, pos, len) == unmarked_from(marked, pos, len),
    decreases len - pos,
{
    match step[pos] {
        Some(i) => {
            lemma_skip_marked(marked, pos, i, len);
            lemma_iter_unmarked_exact(marked, len, step, i + 1);
            assert(unmarked_from(marked, i, len) == seq![i] + unmarked_from(marked, i + 1, len));
        }
        None => {
            lemma_skip_marked(marked, pos, len, len);
        }
    }
}

// ascending, in range, exactly the clear bits: properties of the ideal enumeration
proof fn lemma_unmarked_from_sound_complete(marked: Seq<bool>, pos: int, len: int)
    requires 0 <= pos <= len,
    ensures
        forall|j: int| 0 <= j < unmarked_from(marked, pos, len).len() ==>
            pos <= #[trigger] unmarked_from(marked, pos, len)[j] < len && !marked[unmarked_from(marked, pos, len)[j]],
        forall|j: int, l: int| 0 <= j < l < unmarked_from(marked, pos, len).len() ==>
            unmarked_from(marked, pos, len)[j] < unmarked_from(marked, pos, len)[l],
        forall|k: int| pos <= k < len && !marked[k] ==> unmarked_from(marked, pos, len).contains(k),
    decreases len - pos,
{
    if pos < len {
        lemma_unmarked_from_sound_complete(marked, pos + 1, len);
        let rest = unmarked_from(marked, pos + 1, len);
        let all = unmarked_from(marked, pos, len);
        if !marked[pos] {
            assert(all == seq![pos] + rest);
            assert forall|j: int| 0 <= j < all.len() implies pos <= #[trigger] all[j] < len && !marked[all[j]] by {
                if j > 0 { assert(all[j] == rest[j - 1]); }
            }
            assert forall|j: int, l: int| 0 <= j < l < all.len() implies all[j] < all[l] by {
                assert(all[l] == rest[l - 1]);
                if j > 0 { assert(all[j] == rest[j - 1]); }
            }
            assert forall|k: int| pos <= k < len && !marked[k] implies all.contains(k) by {
                if k == pos {
                    assert(all[0] == pos);
                } else {
                    assert(rest.contains(k));
                    let j = choose|j: int| 0 <= j < rest.len() && rest[j] == k;
                    assert(all[j + 1] == k);
                }
            }
        } else {
            assert(all == rest);
            assert forall|k: int| pos <= k < len && !marked[k] implies all.contains(k) by {
                assert(k != pos);
                assert(rest.contains(k));
            }
        }
    }
}

// ---------------------------------------------------------------------------------------------
// (b) Lexer::advance step contract  ==>  after consuming any text, line = 1 + number of line
//     terminators consumed, column = 1 + number of characters consumed since the last terminator.
// ---------------------------------------------------------------------------------------------
spec fn is_terminator(c: char) -> bool {
    c == '\n' || c == '\u{2028}' || c == '\u{2029}'
}

// the state reached by applying the advance contract character by character from (line 1, column 1)
spec fn walk(s: Seq<char>) -> (int, int)
    decreases s.len(),
{
    if s.len() == 0 {
        (1, 1)
    } else {
        let (l, c) = walk(s.drop_last());
        if is_terminator(s.last()) { (l + 1, 1) } else { (l, c + 1) }
    }
}

spec fn count_terminators(s: Seq<char>) -> int
    decreases s.len(),
{
    if s.len() == 0 { 0 } else { count_terminators(s.drop_last()) + if is_terminator(s.last()) { 1int } else { 0int } }
}

// number of characters after the last terminator
spec fn chars_since_last_terminator(s: Seq<char>) -> int
    decreases s.len(),
{
    if s.len() == 0 || is_terminator(s.last()) { 0 } else { chars_since_last_terminator(s.drop_last()) + 1 }
}

proof fn lemma_walk_is_line_column(s: Seq<char>)
    ensures
        walk(s).0 == 1 + count_terminators(s),
        walk(s).1 == 1 + chars_since_last_terminator(s),
    decreases s.len(),
{
    if s.len() > 0 {
        lemma_walk_is_line_column(s.drop_last());
    }
}

