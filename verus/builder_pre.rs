// Hand-written preamble of the `builder` unit: stand-in types for what the contracted functions
// only pass through, spec functions (abstract views / invariants) and lemmas.  No executable code of
// /repo is written here: every exec fn body below the preamble is copied from the working tree.
use vstd::prelude::*;
use std::rc::Rc;

verus! {

// ---- opaque stand-ins (TRUSTED: the contracted code only moves these values around) ------------
#[verifier::external_body]
struct JsError { _p: () }
impl JsError {
    #[verifier::external_body]
    fn internal_error(message: &str) -> JsError { unimplemented!() }
}

#[verifier::external_body]
struct JsString { _p: () }
impl JsString {
    // TRUSTED: cheap_clone is a reference-count bump; the clone is the same string
    #[verifier::external_body]
    fn cheap_clone(&self) -> (r: JsString)
        ensures r == *self,
    { unimplemented!() }
}

#[verifier::external_body]
#[verifier::accept_recursive_types(K)]
#[verifier::accept_recursive_types(V)]
struct FxHashMap<K, V> { _p: core::marker::PhantomData<(K, V)> }
// TRUSTED model of the hash map used for constant de-duplication: a finite map whose key equality is
// the keys' (content) equality - for JsString (Eq/Hash by content) and u64 this is the std contract.
impl<K, V> FxHashMap<K, V> {
    uninterp spec fn view(&self) -> Map<K, V>;

    #[verifier::external_body]
    fn default() -> (m: Self)
        ensures m@ == Map::<K, V>::empty(),
    { unimplemented!() }

    #[verifier::external_body]
    fn get<'a>(&'a self, k: &K) -> (r: Option<&'a V>)
        ensures
            r is Some <==> self@.contains_key(*k),
            r is Some ==> *(r->Some_0) == self@[*k],
    { unimplemented!() }

    #[verifier::external_body]
    fn insert(&mut self, k: K, v: V) -> (r: Option<V>)
        ensures final(self)@ == old(self)@.insert(k, v),
    { unimplemented!() }
}

// TRUSTED std contract (vstd has none): Option::is_none_or(f) == match self { None => true, Some(x) => f(x) }
pub assume_specification<T, F: FnOnce(T) -> bool>[ Option::<T>::is_none_or ](o: Option<T>, f: F) -> (b: bool)
    requires
        o is Some ==> f.requires((o->Some_0,)),
    ensures
        o is None ==> b,
        o is Some ==> f.ensures((o->Some_0,), b),
;

// TRUSTED wrapper for rule R7 (`if let Some(&x) = e` -> `if let Some(x) = vf_copied(e)`): Option::copied
#[verifier::external_body]
fn vf_copied<T: Copy>(o: Option<&T>) -> (r: Option<T>)
    ensures
        r is Some <==> o is Some,
        o is Some ==> r->Some_0 == *(o->Some_0),
{ o.copied() }

// TRUSTED: f64::to_bits as an uninterpreted injective-enough view (only equality of bit patterns is used)
uninterp spec fn f64_bits(n: f64) -> u64;

#[verifier::external_body]
fn vf_to_bits(n: f64) -> (b: u64)
    ensures b == f64_bits(n),
{ n.to_bits() }

// ---- RegisterAllocator: abstract view and representation invariant -----------------------------
impl RegisterAllocator {
    // the registers currently handed out
    spec fn allocated(&self) -> ISet<u8> {
        ISet::new(|r: u8| r < self.next && !self.free_list@.contains(r))
    }

    spec fn wf(&self) -> bool {
        &&& self.max_used >= self.next
        &&& forall|i: int| 0 <= i < self.free_list@.len() ==> #[trigger] self.free_list@[i] < self.next
        &&& self.free_list@.no_duplicates()
        &&& forall|i: int| 0 <= i < self.saved@.len() ==> #[trigger] self.saved@[i] <= self.max_used
    }

    // nothing but the allocation state moved
    spec fn same_saved(&self, o: &RegisterAllocator) -> bool { self.saved@ == o.saved@ }

    spec fn unchanged(&self, o: &RegisterAllocator) -> bool {
        self.next == o.next && self.max_used == o.max_used && self.saved@ == o.saved@
            && self.free_list@ == o.free_list@
    }
}

proof fn lemma_drop_last_contains(s: Seq<u8>)
    requires
        s.len() > 0,
        s.no_duplicates(),
    ensures
        forall|x: u8| s.drop_last().contains(x) <==> (s.contains(x) && x != s.last()),
        s.drop_last().no_duplicates(),
{
    let d = s.drop_last();
    assert forall|x: u8| d.contains(x) <==> (s.contains(x) && x != s.last()) by {
        if d.contains(x) {
            let i = choose|i: int| 0 <= i < d.len() && d[i] == x;
            assert(s[i] == x);
        }
        if s.contains(x) && x != s.last() {
            let i = choose|i: int| 0 <= i < s.len() && s[i] == x;
            assert(d[i] == x);
        }
    }
}

proof fn lemma_push_contains(s: Seq<u8>, r: u8)
    ensures
        forall|x: u8| s.push(r).contains(x) <==> (s.contains(x) || x == r),
        s.no_duplicates() && !s.contains(r) ==> s.push(r).no_duplicates(),
{
    let p = s.push(r);
    assert forall|x: u8| p.contains(x) <==> (s.contains(x) || x == r) by {
        if p.contains(x) {
            let i = choose|i: int| 0 <= i < p.len() && p[i] == x;
            if i < s.len() { assert(s[i] == x); }
        }
        if s.contains(x) {
            let i = choose|i: int| 0 <= i < s.len() && s[i] == x;
            assert(p[i] == x);
        }
        if x == r { assert(p[s.len() as int] == r); }
    }
}

// order-preserving filter "entries below p" (what Vec::retain(|&r| r < p) leaves)
spec fn keep_lt(s: Seq<u8>, p: u8) -> Seq<u8>
    decreases s.len(),
{
    if s.len() == 0 {
        s
    } else if s.last() < p {
        keep_lt(s.drop_last(), p).push(s.last())
    } else {
        keep_lt(s.drop_last(), p)
    }
}

// TRUSTED wrapper for rule R10; its body is the std call it replaces (Vec::retain keeps exactly the elements
// satisfying the predicate, in order).  Cross-checked by the bounded Kani harnesses restore_f*_s*.
#[verifier::external_body]
fn vf_retain_lt(v: &mut Vec<u8>, p: u8)
    ensures final(v)@ == keep_lt(old(v)@, p),
{ v.retain(|&r| r < p) }

proof fn lemma_keep_lt_below(s: Seq<u8>, p: u8, i: int)
    requires 0 <= i < keep_lt(s, p).len(),
    ensures keep_lt(s, p)[i] < p,
    decreases s.len(),
{
    if s.len() > 0 {
        let kd = keep_lt(s.drop_last(), p);
        if s.last() < p {
            if i < kd.len() { lemma_keep_lt_below(s.drop_last(), p, i); }
        } else {
            lemma_keep_lt_below(s.drop_last(), p, i);
        }
    }
}

proof fn lemma_keep_lt(s: Seq<u8>, p: u8)
    ensures
        forall|x: u8| keep_lt(s, p).contains(x) <==> (s.contains(x) && x < p),
        forall|i: int| 0 <= i < keep_lt(s, p).len() ==> #[trigger] keep_lt(s, p)[i] < p,
        s.no_duplicates() ==> keep_lt(s, p).no_duplicates(),
    decreases s.len(),
{
    assert forall|i: int| 0 <= i < keep_lt(s, p).len() implies #[trigger] keep_lt(s, p)[i] < p by {
        lemma_keep_lt_below(s, p, i);
    }
    if s.len() > 0 {
        let d = s.drop_last();
        let l = s.last();
        lemma_keep_lt(d, p);
        let k = keep_lt(s, p);
        let kd = keep_lt(d, p);
        assert forall|x: u8| k.contains(x) <==> (s.contains(x) && x < p) by {
            if l < p { lemma_push_contains(kd, l); }
            if s.contains(x) {
                let i = choose|i: int| 0 <= i < s.len() && s[i] == x;
                if i < d.len() { assert(d[i] == x); }
            }
            if d.contains(x) {
                let i = choose|i: int| 0 <= i < d.len() && d[i] == x;
                assert(s[i] == x);
            }
        }
        if s.no_duplicates() {
            assert(d.no_duplicates());
            assert(!d.contains(l)) by {
                if d.contains(l) {
                    let i = choose|i: int| 0 <= i < d.len() && d[i] == l;
                    assert(s[i] == s[s.len() - 1]);
                }
            }
            if l < p { lemma_push_contains(kd, l); }
        }
    }
}

spec fn range_set(s: int, n: int) -> ISet<u8> {
    ISet::new(|r: u8| s <= r < s + n)
}

// ---- jump operands ------------------------------------------------------------------------------
spec fn with_target(op: Op, t: u32) -> Op {
    match op {
        Op::Jump { target } => Op::Jump { target: t },
        Op::JumpIfTrue { cond, target } => Op::JumpIfTrue { cond, target: t },
        Op::JumpIfFalse { cond, target } => Op::JumpIfFalse { cond, target: t },
        Op::JumpIfNullish { cond, target } => Op::JumpIfNullish { cond, target: t },
        Op::JumpIfNotNullish { cond, target } => Op::JumpIfNotNullish { cond, target: t },
        Op::IteratorDone { result, target } => Op::IteratorDone { result, target: t },
        Op::Break { target, try_depth } => Op::Break { target: t, try_depth },
        Op::Continue { target, try_depth } => Op::Continue { target: t, try_depth },
        o => o,
    }
}

spec fn with_try_targets(op: Op, c: u32, f: u32) -> Op {
    match op {
        Op::PushTry { catch_target, finally_target } => Op::PushTry { catch_target: c, finally_target: f },
        o => o,
    }
}

spec fn with_iter_try_target(op: Op, c: u32) -> Op {
    match op {
        Op::PushIterTry { iterator, catch_target } => Op::PushIterTry { iterator, catch_target: c },
        o => o,
    }
}

// `code` after patching instruction idx with g(old op); every other instruction untouched
spec fn patched(old_code: Seq<Op>, new_code: Seq<Op>, idx: int, new_op: Op) -> bool {
    &&& new_code.len() == old_code.len()
    &&& forall|j: int| 0 <= j < old_code.len() && j != idx ==> new_code[j] == old_code[j]
    &&& 0 <= idx < old_code.len() ==> new_code[idx] == new_op
}

impl BytecodeBuilder {
    // everything but `code`
    spec fn same_but_code(&self, o: &BytecodeBuilder) -> bool {
        &&& self.source_map@ == o.source_map@
        &&& self.same_pool_and_regs(o)
    }

    // everything but the constant pool (and its private de-duplication maps)
    spec fn same_but_constants(&self, o: &BytecodeBuilder) -> bool {
        &&& self.code@ == o.code@
        &&& self.source_map@ == o.source_map@
        &&& self.registers.unchanged(&o.registers)
        &&& self.current_span == o.current_span
    }

    // everything but the register allocator
    spec fn same_but_regs(&self, o: &BytecodeBuilder) -> bool {
        &&& self.code@ == o.code@
        &&& self.source_map@ == o.source_map@
        &&& self.constants@ == o.constants@
        &&& self.current_span == o.current_span
    }

    spec fn wf(&self) -> bool {
        &&& self.registers.wf()
        &&& sm_wf(self.source_map@, self.code@.len() as int)
        &&& self.pool_wf()
        // index 65535 (ConstantIndex::MAX) is reserved as the "no name" sentinel of ApplyClassDecorator
        &&& self.constants@.len() <= 65535
    }

    // constant de-duplication: every remembered index points at the constant it was remembered for
    spec fn pool_wf(&self) -> bool {
        &&& forall|s: JsString| #[trigger] self.string_map@.contains_key(s) ==> (self.string_map@[s] as int) < self.constants@.len()
                && self.constants@[self.string_map@[s] as int] == Constant::String(s)
        &&& forall|b: u64| #[trigger] self.number_map@.contains_key(b) ==> (self.number_map@[b] as int) < self.constants@.len()
                && (self.constants@[self.number_map@[b] as int] is Number)
                && f64_bits(self.constants@[self.number_map@[b] as int]->Number_0) == b
    }

    // the constant pool only grows: existing indices keep their constant
    spec fn pool_extends(&self, o: &BytecodeBuilder) -> bool {
        &&& self.constants@.len() >= o.constants@.len()
        &&& forall|j: int| 0 <= j < o.constants@.len() ==> self.constants@[j] == o.constants@[j]
    }

    // frame: everything except `code` / `source_map`
    spec fn same_pool_and_regs(&self, o: &BytecodeBuilder) -> bool {
        &&& self.constants@ == o.constants@
        &&& self.registers.unchanged(&o.registers)
        &&& self.current_span == o.current_span
    }
}

