// Shared preamble part (units `builder` and `trace`): the source-map view.  Appended INSIDE the verus! block
// opened by the unit's first preamble file.  Needs the real items SourceMapEntry and Span in the unit.
// ---- source map: strictly increasing offsets, lookup = last entry at or before the instruction ---
spec fn sm_wf(sm: Seq<SourceMapEntry>, code_len: int) -> bool {
    &&& forall|i: int, j: int| 0 <= i < j < sm.len() ==> sm[i].bytecode_offset < sm[j].bytecode_offset
    &&& forall|i: int| 0 <= i < sm.len() ==> (#[trigger] sm[i]).bytecode_offset < code_len
}

spec fn lookup(sm: Seq<SourceMapEntry>, i: int) -> Option<Span>
    decreases sm.len(),
{
    if sm.len() == 0 {
        None
    } else if sm.last().bytecode_offset <= i {
        Some(sm.last().span)
    } else {
        lookup(sm.drop_last(), i)
    }
}

proof fn lemma_lookup_push(sm: Seq<SourceMapEntry>, e: SourceMapEntry, i: int)
    ensures
        e.bytecode_offset <= i ==> lookup(sm.push(e), i) == Some(e.span),
        e.bytecode_offset > i ==> lookup(sm.push(e), i) == lookup(sm, i),
{
    assert(sm.push(e).last() == e);
    assert(sm.push(e).drop_last() =~= sm);
}

proof fn lemma_lookup_push_any(sm: Seq<SourceMapEntry>)
    ensures
        forall|e: SourceMapEntry, i: int| #[trigger] lookup(sm.push(e), i) == (if e.bytecode_offset <= i { Some(e.span) } else { lookup(sm, i) }),
{
    assert forall|e: SourceMapEntry, i: int| #[trigger] lookup(sm.push(e), i) == (if e.bytecode_offset <= i { Some(e.span) } else { lookup(sm, i) }) by {
        lemma_lookup_push(sm, e, i);
    }
}

spec fn sm_sorted(sm: Seq<SourceMapEntry>) -> bool {
    forall|i: int, j: int| 0 <= i < j < sm.len() ==> sm[i].bytecode_offset < sm[j].bytecode_offset
}

// TRUSTED wrapper for rule R9; its body is the std call it replaces.  Contract = std's documented contract of
// binary_search_by_key on a slice sorted by the key (cross-checked by the bounded Kani harness srcmap_lookup_*).
#[verifier::external_body]
fn vf_bsearch_offset(v: &Vec<SourceMapEntry>, key: usize) -> (r: Result<usize, usize>)
    ensures
        sm_sorted(v@) ==> match r {
            Ok(i) => i < v@.len() && v@[i as int].bytecode_offset == key,
            Err(i) => i <= v@.len()
                && (forall|j: int| 0 <= j < i ==> (#[trigger] v@[j]).bytecode_offset < key)
                && (forall|j: int| i <= j < v@.len() ==> (#[trigger] v@[j]).bytecode_offset > key),
        },
{ v.binary_search_by_key(&key, |e| e.bytecode_offset) }

// lookup (defined from the end) == the entry at the greatest index whose offset is <= q
proof fn lemma_lookup_characterisation(sm: Seq<SourceMapEntry>, q: int, k: int)
    requires
        sm_sorted(sm),
        0 <= k <= sm.len(),
        forall|j: int| 0 <= j < k ==> (#[trigger] sm[j]).bytecode_offset <= q,
        forall|j: int| k <= j < sm.len() ==> (#[trigger] sm[j]).bytecode_offset > q,
    ensures
        k == 0 ==> lookup(sm, q) is None,
        k > 0 ==> lookup(sm, q) == Some(sm[k - 1].span),
    decreases sm.len(),
{
    if sm.len() > 0 {
        if sm.last().bytecode_offset <= q {
            assert(k == sm.len()) by { if k < sm.len() { assert(sm[sm.len() - 1].bytecode_offset > q); } }
        } else {
            let d = sm.drop_last();
            assert(k < sm.len()) by { if k == sm.len() { assert(sm[sm.len() - 1].bytecode_offset <= q); } }
            assert(sm_sorted(d)) by {
                assert forall|i: int, j: int| 0 <= i < j < d.len() implies d[i].bytecode_offset < d[j].bytecode_offset by {
                    assert(d[i] == sm[i] && d[j] == sm[j]);
                }
            }
            assert forall|j: int| 0 <= j < k implies (#[trigger] d[j]).bytecode_offset <= q by { assert(d[j] == sm[j]); }
            assert forall|j: int| k <= j < d.len() implies (#[trigger] d[j]).bytecode_offset > q by { assert(d[j] == sm[j]); }
            lemma_lookup_characterisation(d, q, k);
            if k > 0 { assert(d[k - 1] == sm[k - 1]); }
        }
    }
}

