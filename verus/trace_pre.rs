// Hand-written preamble of the `trace` unit (C20): stand-in types for what BytecodeVM::build_stack_trace only
// carries around, the abstract view of a stack trace, and lemmas.  No executable code of /repo is written
// here: every exec fn body below the preamble is copied from the working tree.
use vstd::prelude::*;
use std::rc::Rc;

verus! {

// ---- opaque stand-ins (TRUSTED: build_stack_trace never looks inside these) ---------------------
#[verifier::external_body]
struct JsString { _p: () }
// the text of an interned string (uninterpreted)
uninterp spec fn js_text(s: JsString) -> Seq<char>;
impl JsString {
    // TRUSTED: ToString via Display yields the string's text
    #[verifier::external_body]
    fn to_string(&self) -> (r: String)
        ensures r@ == js_text(*self),
    { unimplemented!() }
}
#[verifier::external_body]
struct JsValue { _p: () }
#[verifier::external_body]
struct JsObject { _p: () }
#[verifier::external_body]
struct CallFrame { _p: () }
#[verifier::external_body]
struct TryHandler { _p: () }
#[verifier::external_body]
struct Guarded { _p: () }
#[verifier::external_body]
struct PendingCompletion { _p: () }
#[verifier::external_body]
#[verifier::accept_recursive_types(T)]
struct Gc<T> { _p: core::marker::PhantomData<T> }
#[verifier::external_body]
#[verifier::accept_recursive_types(T)]
struct Guard<T> { _p: core::marker::PhantomData<T> }

// TRUSTED wrappers for rules R3 / R6 (bodies are the std calls they replace): format! of &str pieces is
// concatenation, str::to_string is the identity on the text
#[verifier::external_body]
fn vf_concat2(a: &str, b: &str) -> (r: String)
    ensures r@ == a@ + b@,
{ format!("{}{}", a, b) }

#[verifier::external_body]
fn vf_to_string(s: &str) -> (r: String)
    ensures r@ == s@,
{ s.to_string() }

// ---- abstract view of a reported frame and of the whole trace -----------------------------------
struct FrameView { name: Option<Seq<char>>, file: Option<Seq<char>>, line: u32, column: u32 }

spec fn opt_view(o: Option<String>) -> Option<Seq<char>> {
    match o { Some(s) => Some(s@), None => None }
}
spec fn fview(f: StackFrame) -> FrameView {
    FrameView { name: opt_view(f.function_name), file: opt_view(f.file), line: f.line, column: f.column }
}
spec fn views(s: Seq<StackFrame>) -> Seq<FrameView> {
    s.map_values(|f: StackFrame| fview(f))
}
broadcast proof fn lemma_views_push(s: Seq<StackFrame>, f: StackFrame)
    ensures #[trigger] views(s.push(f)) == views(s).push(fview(f)),
{
    assert(views(s.push(f)) =~= views(s).push(fview(f)));
}
proof fn lemma_views_empty()
    ensures views(Seq::<StackFrame>::empty()) == Seq::<FrameView>::empty(),
{
    assert(views(Seq::<StackFrame>::empty()) =~= Seq::<FrameView>::empty());
}

// the instruction that was executing in a frame whose saved ip is `ip` (ip already advanced past it)
spec fn prev_ip(ip: usize) -> usize { if ip > 0 { (ip - 1) as usize } else { 0 } }

spec fn info_name(i: FunctionInfo) -> Option<Seq<char>> {
    match i.name { Some(n) => Some(js_text(n)), None => None }
}
// the enclosing function's name: the name recorded in the chunk's own FunctionInfo
spec fn chunk_name(c: BytecodeChunk) -> Option<Seq<char>> {
    match c.function_info { Some(info) => info_name(info), None => None }
}
// the frame reported for an activation executing chunk `c` with saved ip `ip`: located by the chunk's OWN source
// map at the instruction that was executing, named by the chunk's own function, in the chunk's own file;
// an activation whose instruction has no source-map entry is not reported
spec fn frame_of(c: BytecodeChunk, ip: usize) -> Seq<FrameView> {
    match lookup(c.source_map@, prev_ip(ip) as int) {
        Some(span) => seq![FrameView { name: chunk_name(c), file: opt_view(c.source_file), line: span.line, column: span.column }],
        None => Seq::empty(),
    }
}
spec fn tf_frames(t: TrampolineFrame) -> Seq<FrameView> { frame_of(*t.chunk, t.ip) }
spec fn cur_frames(vm: BytecodeVM) -> Seq<FrameView> { frame_of(*vm.chunk, vm.ip) }
// frames of the suspended callers ts[from..], the most recently suspended (last pushed) first
spec fn outer_frames(ts: Seq<TrampolineFrame>, from: int) -> Seq<FrameView>
    decreases ts.len() - from
{
    if from < 0 || from >= ts.len() { Seq::empty() } else { outer_frames(ts, from + 1) + tf_frames(ts[from]) }
}
// THE TRACE: the running activation first, then every suspended caller, innermost first, each exactly once
spec fn trace_spec(vm: BytecodeVM) -> Seq<FrameView> {
    cur_frames(vm) + outer_frames(vm.trampoline_stack@, 0)
}
// chunk invariant established by BytecodeBuilder::finish / BytecodeChunk::new (unit `builder`: finish/ensures#sm_wf)
spec fn vm_chunks_wf(vm: BytecodeVM) -> bool {
    &&& sm_sorted(vm.chunk.source_map@)
    &&& forall|i: int| 0 <= i < vm.trampoline_stack@.len() ==> sm_sorted((#[trigger] vm.trampoline_stack@[i]).chunk.source_map@)
}

// explicit characterisation used by readers of the contract: with all activations located, the trace has one
// frame per activation and the k-th outer frame is the k-th most recently suspended caller
proof fn lemma_outer_len(ts: Seq<TrampolineFrame>, from: int)
    requires
        0 <= from <= ts.len(),
        forall|i: int| from <= i < ts.len() ==> tf_frames(#[trigger] ts[i]).len() == 1,
    ensures
        outer_frames(ts, from).len() == ts.len() - from,
        forall|k: int| 0 <= k < ts.len() - from ==> outer_frames(ts, from)[k] == tf_frames(#[trigger] ts[ts.len() - 1 - k])[0],
    decreases ts.len() - from
{
    if from < ts.len() {
        lemma_outer_len(ts, from + 1);
        let a = outer_frames(ts, from + 1);
        let b = tf_frames(ts[from]);
        assert(outer_frames(ts, from) == a + b);
        assert forall|k: int| 0 <= k < ts.len() - from implies outer_frames(ts, from)[k] == tf_frames(#[trigger] ts[ts.len() - 1 - k])[0] by {
            if k < a.len() {
                assert((a + b)[k] == a[k]);
            } else {
                assert(k == ts.len() - from - 1);
                assert((a + b)[k] == b[k - a.len()]);
            }
        }
    }
}

