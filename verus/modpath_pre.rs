// Hand-written preamble of the `modpath` unit (C18): specification of path canonicalisation over
// Seq<char>, TRUSTED wrappers for the std string calls (rules R1-R6; each body is the std call it
// replaces), lemmas over the specification.  No executable code of /repo is written here.
use vstd::prelude::*;
use vstd::string::*;
verus! {

// ---------------- spec: paths as sequences of characters ----------------
pub open spec fn split(s: Seq<char>, c: char) -> Seq<Seq<char>>
    decreases s.len(),
{
    if s.len() == 0 {
        seq![Seq::<char>::empty()]
    } else {
        let rest = split(s.drop_first(), c);
        if s[0] == c {
            seq![Seq::<char>::empty()] + rest
        } else {
            seq![seq![s[0]] + rest[0]] + rest.drop_first()
        }
    }
}

pub open spec fn join(parts: Seq<Seq<char>>, sep: Seq<char>) -> Seq<char>
    decreases parts.len(),
{
    if parts.len() == 0 {
        Seq::<char>::empty()
    } else if parts.len() == 1 {
        parts[0]
    } else {
        parts[0] + sep + join(parts.drop_first(), sep)
    }
}

pub open spec fn dot() -> Seq<char> { seq!['.'] }
pub open spec fn dotdot() -> Seq<char> { seq!['.', '.'] }
pub open spec fn slash() -> Seq<char> { seq!['/'] }

pub open spec fn canon_step(stack: Seq<Seq<char>>, seg: Seq<char>) -> Seq<Seq<char>> {
    if seg.len() == 0 || seg == dot() {
        stack
    } else if seg == dotdot() {
        if stack.len() > 0 { stack.drop_last() } else { stack }
    } else {
        stack.push(seg)
    }
}

pub open spec fn canon_from(stack: Seq<Seq<char>>, segs: Seq<Seq<char>>) -> Seq<Seq<char>>
    decreases segs.len(),
{
    if segs.len() == 0 { stack } else { canon_from(canon_step(stack, segs[0]), segs.drop_first()) }
}

pub open spec fn canon(segs: Seq<Seq<char>>) -> Seq<Seq<char>> {
    canon_from(Seq::<Seq<char>>::empty(), segs)
}

pub open spec fn is_abs(p: Seq<char>) -> bool { p.len() > 0 && p[0] == '/' }

pub open spec fn render(abs: bool, segs: Seq<Seq<char>>) -> Seq<char> {
    if abs { slash() + join(segs, slash()) } else { join(segs, slash()) }
}

pub open spec fn norm(p: Seq<char>) -> Seq<char> {
    render(is_abs(p), canon(split(p, '/')))
}

pub open spec fn sv(v: Seq<&str>) -> Seq<Seq<char>> {
    v.map_values(|s: &str| s@)
}

pub open spec fn before_last(s: Seq<char>, c: char) -> Option<Seq<char>>
    decreases s.len(),
{
    if s.len() == 0 { None } else if s.last() == c { Some(s.drop_last()) } else { before_last(s.drop_last(), c) }
}

pub open spec fn is_prefix(p: Seq<char>, s: Seq<char>) -> bool {
    p.len() <= s.len() && s.subrange(0, p.len() as int) == p
}

// ---------------- trusted wrappers (bodies are the std calls they replace) ----------------
#[verifier::external_body]
proof fn axiom_str_ext(a: &str, b: &str)
    ensures (a@ == b@) <==> (a == b),
{ }

#[verifier::external_body]
fn vf_split<'a>(s: &'a str, c: char) -> (v: Vec<&'a str>)
    ensures sv(v@) == split(s@, c),
{ s.split(c).collect() }

#[verifier::external_body]
fn vf_join(v: &Vec<&str>, sep: &str) -> (r: String)
    ensures r@ == join(sv(v@), sep@),
{ v.join(sep) }

#[verifier::external_body]
fn vf_concat2(a: &str, b: &str) -> (r: String)
    ensures r@ == a@ + b@,
{ format!("{}{}", a, b) }

#[verifier::external_body]
fn vf_concat3(a: &str, b: &str, c: &str) -> (r: String)
    ensures r@ == a@ + b@ + c@,
{ format!("{}{}{}", a, b, c) }

#[verifier::external_body]
fn vf_starts_with_char(s: &str, c: char) -> (r: bool)
    ensures r == (s@.len() > 0 && s@[0] == c),
{ s.starts_with(c) }

#[verifier::external_body]
fn vf_starts_with_str(s: &str, p: &str) -> (r: bool)
    ensures r == is_prefix(p@, s@),
{ s.starts_with(p) }

#[verifier::external_body]
fn vf_before_last<'a>(s: &'a String, c: char) -> (r: Option<&'a str>)
    ensures
        r is Some <==> before_last(s@, c) is Some,
        r is Some ==> r->Some_0@ == before_last(s@, c)->Some_0,
{ s.rfind(c).and_then(|idx| s.get(..idx)) }

#[verifier::external_body]
fn vf_to_string(s: &str) -> (r: String)
    ensures r@ == s@,
{ s.to_string() }

proof fn lemma_sv()
    ensures
        forall|v: Seq<&str>, x: &str| #[trigger] sv(v.push(x)) == sv(v).push(x@),
        forall|v: Seq<&str>| v.len() > 0 ==> #[trigger] sv(v.drop_last()) == sv(v).drop_last(),
        forall|v: Seq<&str>| #[trigger] sv(v).len() == v.len(),
        sv(Seq::<&str>::empty()) == Seq::<Seq<char>>::empty(),
{
    assert forall|v: Seq<&str>, x: &str| #[trigger] sv(v.push(x)) == sv(v).push(x@) by {
        assert(sv(v.push(x)) =~= sv(v).push(x@));
    }
    assert forall|v: Seq<&str>| v.len() > 0 implies #[trigger] sv(v.drop_last()) == sv(v).drop_last() by {
        assert(sv(v.drop_last()) =~= sv(v).drop_last());
    }
    assert(sv(Seq::<&str>::empty()) =~= Seq::<Seq<char>>::empty());
}

// one unfolding of the fold at position i
proof fn lemma_canon_unfold(stack: Seq<Seq<char>>, all: Seq<Seq<char>>, i: int)
    requires 0 <= i < all.len(),
    ensures
        canon_from(stack, all.subrange(i, all.len() as int))
            == canon_from(canon_step(stack, all[i]), all.subrange(i + 1, all.len() as int)),
{
    let rest = all.subrange(i, all.len() as int);
    assert(rest[0] == all[i]);
    assert(rest.drop_first() =~= all.subrange(i + 1, all.len() as int));
}


// ---------------- lemmas over the specification (independent of the code) ----------------
pub open spec fn clean_seg(x: Seq<char>) -> bool {
    x.len() > 0 && x != dot() && x != dotdot() && !x.contains('/')
}

pub open spec fn all_clean(segs: Seq<Seq<char>>) -> bool {
    forall|i: int| 0 <= i < segs.len() ==> clean_seg(#[trigger] segs[i])
}

pub open spec fn slash_free(segs: Seq<Seq<char>>) -> bool {
    forall|i: int| 0 <= i < segs.len() ==> !(#[trigger] segs[i]).contains('/')
}

proof fn lemma_split_parts(s: Seq<char>, c: char)
    ensures
        split(s, c).len() >= 1,
        forall|i: int| 0 <= i < split(s, c).len() ==> !(#[trigger] split(s, c)[i]).contains(c),
    decreases s.len(),
{
    let e = Seq::<char>::empty();
    if s.len() == 0 {
        assert(!e.contains(c));
    } else {
        let rest = split(s.drop_first(), c);
        lemma_split_parts(s.drop_first(), c);
        let sp = split(s, c);
        if s[0] == c {
            assert(sp == seq![e] + rest);
            assert forall|k: int| 0 <= k < sp.len() implies !(#[trigger] sp[k]).contains(c) by {
                if k == 0 { assert(sp[0] == e); assert(!e.contains(c)); } else { assert(sp[k] == rest[k - 1]); }
            }
        } else {
            let h = seq![s[0]] + rest[0];
            assert(sp == seq![h] + rest.drop_first());
            assert(!h.contains(c)) by {
                if h.contains(c) {
                    let j = choose|j: int| 0 <= j < h.len() && h[j] == c;
                    if j > 0 { assert(rest[0][j - 1] == c); assert(rest[0].contains(c)); }
                }
            }
            assert forall|k: int| 0 <= k < sp.len() implies !(#[trigger] sp[k]).contains(c) by {
                if k == 0 { assert(sp[0] == h); } else { assert(sp[k] == rest[k]); }
            }
        }
    }
}

// canon keeps a clean stack clean and only ever adds clean, slash-free segments
proof fn lemma_canon_clean(stack: Seq<Seq<char>>, segs: Seq<Seq<char>>)
    requires
        all_clean(stack),
        slash_free(segs),
    ensures
        all_clean(canon_from(stack, segs)),
    decreases segs.len(),
{
    if segs.len() > 0 {
        let st = canon_step(stack, segs[0]);
        assert(all_clean(st)) by {
            assert forall|i: int| 0 <= i < st.len() implies clean_seg(#[trigger] st[i]) by {
                if i < stack.len() { assert(st[i] == stack[i]); } else { assert(st[i] == segs[0]); }
            }
        }
        assert(slash_free(segs.drop_first())) by {
            assert forall|i: int| 0 <= i < segs.drop_first().len() implies !(#[trigger] segs.drop_first()[i]).contains('/') by {
                assert(segs.drop_first()[i] == segs[i + 1]);
            }
        }
        lemma_canon_clean(st, segs.drop_first());
    }
}

// canon is the identity on clean segment lists (appended to the stack)
proof fn lemma_canon_of_clean(stack: Seq<Seq<char>>, segs: Seq<Seq<char>>)
    requires all_clean(segs),
    ensures canon_from(stack, segs) == stack + segs,
    decreases segs.len(),
{
    if segs.len() == 0 {
        assert(stack + segs =~= stack);
    } else {
        assert(clean_seg(segs[0]));
        assert(canon_step(stack, segs[0]) == stack.push(segs[0]));
        assert(all_clean(segs.drop_first())) by {
            assert forall|i: int| 0 <= i < segs.drop_first().len() implies clean_seg(#[trigger] segs.drop_first()[i]) by {
                assert(segs.drop_first()[i] == segs[i + 1]);
            }
        }
        lemma_canon_of_clean(stack.push(segs[0]), segs.drop_first());
        assert(stack.push(segs[0]) + segs.drop_first() =~= stack + segs);
    }
}

// split is a left inverse of join on non-empty lists of slash-free parts
proof fn lemma_split_join(parts: Seq<Seq<char>>)
    requires
        parts.len() >= 1,
        slash_free(parts),
    ensures
        split(join(parts, slash()), '/') == parts,
    decreases join(parts, slash()).len(),
{
    let e = Seq::<char>::empty();
    let j = join(parts, slash());
    let x = parts[0];
    let rest = parts.drop_first();
    assert(slash_free(rest)) by {
        assert forall|i: int| 0 <= i < rest.len() implies !(#[trigger] rest[i]).contains('/') by {
            assert(rest[i] == parts[i + 1]);
        }
    }
    if x.len() == 0 {
        assert(x =~= e);
        if parts.len() == 1 {
            assert(j =~= e);
            assert(seq![e] =~= parts);
        } else {
            assert(j =~= slash() + join(rest, slash()));
            assert(j[0] == '/');
            assert(j.drop_first() =~= join(rest, slash()));
            lemma_split_join(rest);
            assert(seq![e] + rest =~= parts);
        }
    } else {
        assert(x[0] != '/') by { if x[0] == '/' { assert(x.contains('/')); } }
        let parts2 = parts.update(0, x.drop_first());
        assert(parts2.drop_first() =~= rest);
        assert(slash_free(parts2)) by {
            assert forall|i: int| 0 <= i < parts2.len() implies !(#[trigger] parts2[i]).contains('/') by {
                if i == 0 {
                    if parts2[0].contains('/') {
                        let k = choose|k: int| 0 <= k < parts2[0].len() && parts2[0][k] == '/';
                        assert(x[k + 1] == '/');
                        assert(x.contains('/'));
                    }
                } else { assert(parts2[i] == parts[i]); }
            }
        }
        if parts.len() == 1 {
            assert(j == x);
            assert(join(parts2, slash()) == x.drop_first());
        } else {
            assert(j == x + slash() + join(rest, slash()));
            assert(join(parts2, slash()) == x.drop_first() + slash() + join(rest, slash()));
            assert(j.drop_first() =~= join(parts2, slash()));
        }
        assert(j.drop_first() =~= join(parts2, slash()));
        assert(j[0] == x[0]);
        lemma_split_join(parts2);
        assert(seq![x[0]] + parts2[0] =~= x);
        assert(seq![x] + parts2.drop_first() =~= parts);
    }
}

// the canonical form: "/" or "" or clean segments joined by "/", with a leading "/" iff absolute
proof fn lemma_norm_shape(p: Seq<char>)
    ensures
        all_clean(canon(split(p, '/'))),
        norm(p) == render(is_abs(p), canon(split(p, '/'))),
        is_abs(norm(p)) == is_abs(p),
        // no trailing slash, except for the root itself
        norm(p).len() > 0 && norm(p).last() == '/' ==> norm(p) == slash(),
{
    lemma_split_parts(p, '/');
    let segs = canon(split(p, '/'));
    assert(slash_free(split(p, '/')));
    lemma_canon_clean(Seq::<Seq<char>>::empty(), split(p, '/'));
    lemma_join_clean(segs);
}

// facts about join(clean segs): first char is not '/', last char is not '/', empty iff no segments
proof fn lemma_join_clean(segs: Seq<Seq<char>>)
    requires all_clean(segs),
    ensures
        segs.len() == 0 ==> join(segs, slash()).len() == 0,
        segs.len() > 0 ==> join(segs, slash()).len() > 0 && join(segs, slash())[0] != '/' && join(segs, slash()).last() != '/',
    decreases segs.len(),
{
    if segs.len() == 1 {
        assert(clean_seg(segs[0]));
        let x = segs[0];
        assert(x[0] != '/') by { if x[0] == '/' { assert(x.contains('/')); } }
        assert(x.last() != '/') by { if x.last() == '/' { assert(x.contains('/')); } }
    } else if segs.len() > 1 {
        let rest = segs.drop_first();
        assert(all_clean(rest)) by {
            assert forall|i: int| 0 <= i < rest.len() implies clean_seg(#[trigger] rest[i]) by {
                assert(rest[i] == segs[i + 1]);
            }
        }
        lemma_join_clean(rest);
        assert(clean_seg(segs[0]));
        let x = segs[0];
        assert(x[0] != '/') by { if x[0] == '/' { assert(x.contains('/')); } }
        let j = join(segs, slash());
        assert(j == x + slash() + join(rest, slash()));
        assert(j[0] == x[0]);
        assert(j.last() == join(rest, slash()).last());
    }
}

// resolving again changes nothing
proof fn lemma_norm_idempotent(p: Seq<char>)
    ensures norm(norm(p)) == norm(p),
{
    lemma_norm_shape(p);
    let segs = canon(split(p, '/'));
    let abs = is_abs(p);
    let q = norm(p);
    let none = Seq::<Seq<char>>::empty();
    lemma_join_clean(segs);
    assert(slash_free(segs)) by {
        assert forall|i: int| 0 <= i < segs.len() implies !(#[trigger] segs[i]).contains('/') by { assert(clean_seg(segs[i])); }
    }
    let e = Seq::<char>::empty();
    assert(is_abs(q) == abs);
    if segs.len() == 0 {
        assert(segs =~= none);
        if abs {
            assert(q =~= slash());
            assert(q[0] == '/');
            assert(q.drop_first() =~= e);
            assert(split(e, '/') == seq![e]);
            let sp = split(q, '/');
            assert(sp =~= seq![e, e]);
            assert(canon_step(none, e) == none);
            assert(sp[0] == e);
            assert(sp.drop_first() =~= seq![e]);
            assert(seq![e][0] == e);
            assert(seq![e].drop_first() =~= none);
            assert(canon_from(none, seq![e]) == canon_from(none, none));
            assert(canon(sp) == canon_from(canon_step(none, sp[0]), sp.drop_first()));
            assert(canon(sp) == none);
        } else {
            assert(q =~= e);
            let sp = split(q, '/');
            assert(sp == seq![e]);
            assert(sp[0] == e);
            assert(sp.drop_first() =~= none);
            assert(canon_step(none, e) == none);
            assert(canon(sp) == canon_from(canon_step(none, sp[0]), sp.drop_first()));
            assert(canon(sp) == none);
        }
    } else {
        if abs {
            // "/" + join(segs) == join([""] + segs)
            let parts = seq![e] + segs;
            assert(parts[0] == e);
            assert(parts.drop_first() =~= segs);
            assert(join(parts, slash()) == e + slash() + join(segs, slash()));
            assert(q =~= join(parts, slash()));
            assert(slash_free(parts)) by {
                assert forall|i: int| 0 <= i < parts.len() implies !(#[trigger] parts[i]).contains('/') by {
                    if i > 0 { assert(parts[i] == segs[i - 1]); } else { assert(!e.contains('/')); }
                }
            }
            lemma_split_join(parts);
            assert(split(q, '/') == parts);
            assert(canon_step(none, e) == none);
            assert(canon(parts) == canon_from(canon_step(none, parts[0]), parts.drop_first()));
            lemma_canon_of_clean(none, segs);
            assert(none + segs =~= segs);
            assert(canon(parts) == segs);
        } else {
            lemma_split_join(segs);
            lemma_canon_of_clean(none, segs);
            assert(none + segs =~= segs);
            assert(canon(split(q, '/')) == segs);
        }
    }
}

// the directory of an absolute importer is "" (the root) or absolute
proof fn lemma_before_last(s: Seq<char>, c: char)
    ensures
        s.contains(c) ==> before_last(s, c) is Some,
        before_last(s, c) is Some ==> is_prefix(before_last(s, c)->Some_0, s) && before_last(s, c)->Some_0.len() < s.len(),
    decreases s.len(),
{
    if s.len() > 0 {
        if s.last() == c {
            assert(s.subrange(0, s.len() - 1) =~= s.drop_last());
        } else {
            lemma_before_last(s.drop_last(), c);
            if s.contains(c) {
                let i = choose|i: int| 0 <= i < s.len() && s[i] == c;
                assert(s.drop_last()[i] == c);
            }
            if before_last(s, c) is Some {
                let d = before_last(s, c)->Some_0;
                assert(s.subrange(0, d.len() as int) =~= s.drop_last().subrange(0, d.len() as int));
            }
        }
    }
}

pub open spec fn combined_spec(s: Seq<char>, base: Option<Seq<char>>) -> Seq<char> {
    match base {
        Some(b) => match before_last(b, '/') {
            Some(d) => d + slash() + s,
            None => s,
        },
        None => s,
    }
}

// resolving a relative specifier against an absolute importer gives an absolute path
proof fn lemma_abs_importer(s: Seq<char>, b: Seq<char>)
    requires is_abs(b),
    ensures is_abs(norm(combined_spec(s, Some(b)))),
{
    assert(b.contains('/')) by { assert(b[0] == '/'); }
    lemma_before_last(b, '/');
    let d = before_last(b, '/')->Some_0;
    let c = d + slash() + s;
    if d.len() == 0 {
        assert(c[0] == '/');
    } else {
        assert(b.subrange(0, d.len() as int)[0] == b[0]);
        assert(c[0] == d[0]);
    }
    lemma_norm_shape(c);
}

impl ModulePath {
    spec fn spec_is_relative(s: Seq<char>) -> bool {
        is_prefix(seq!['.', '/'], s) || is_prefix(seq!['.', '.', '/'], s)
    }

    spec fn spec_is_bare(s: Seq<char>) -> bool {
        !is_abs(s) && !Self::spec_is_relative(s)
    }

    spec fn base_view(base: Option<&ModulePath>) -> Option<Seq<char>> {
        match base { Some(b) => Some(b.0@), None => None }
    }
}

