# sidebat.py <ID> [iters]: run only the side battery of a property against /repo (or VERIF_REPO) and print its result
import sys, os, json
sys.path.insert(0,'/verif'); sys.path.insert(0,'/verif/tools')
import check, common, side
from props import PROPS
pid=sys.argv[1]
P=PROPS[pid]
work=common.workdir(pid+'-side')
wr=check.prepare_workrepo(work,[],[],P['side'])
r=side.run_battery(wr,P['side'],0,int(sys.argv[2]) if len(sys.argv)>2 else 4)
print(json.dumps(r,indent=1)[:6000])
print(json.dumps(side.SCANS[pid](common.REPO),indent=1)[:3000])
