"""Syntactic side obligations (DESIGN §4.1, §4.5): links between contracted helpers and their call sites
that neither verifier can reach.  A side obligation NEVER raises a violation by itself: it does so only
together with a failing native replay (battery) on the real build.  A flagged site whose battery is
clean is listed in the evidence as an unverified site and the check stays green."""
import os
import re
import subprocess
import time

import common
from rsx import Source, match_close, RsxError

HERE = os.path.dirname(os.path.dirname(os.path.abspath(__file__)))


def mount_battery(wr, cfg):
    common.append_file(os.path.join(wr, cfg['mount']),
                       '\n#[cfg(all(test, not(kani)))]\n#[path = "%s/replay/%s.rs"]\nmod %s;\n' % (HERE, cfg['unit'], cfg['mod']))


def run_battery(wr, cfg, seed, iters):
    env = dict(os.environ)
    env['VERIF_SEED'] = str(seed)
    env['VERIF_ITERS'] = str(iters)
    env['CARGO_NET_OFFLINE'] = 'true'
    cmd = ['cargo', 'test', '--lib', '--offline', cfg['test'], '--', '--nocapture', '--test-threads', '1']
    t0 = time.time()
    rc, t = common.run_group(cmd, cwd=wr, env=env, timeout=1200)
    if rc is None:
        t += '\nbattery timed out'
    fails = []
    for m in re.finditer(r'VERIF-SIDE-FAIL obligation=(\S+) (.*)$', t, re.M):
        fails.append({'obligation': m.group(1), 'what': m.group(2)[:1500]})
    m = re.search(r'VERIF-SIDE-DONE cases=(\d+)', t)
    return {'cmd': 'VERIF_SEED=%d VERIF_ITERS=%d %s' % (seed, iters, ' '.join(cmd)), 'ran': bool(m),
            'cases': int(m.group(1)) if m else 0, 'fails': fails, 'wall_s': round(time.time() - t0, 1),
            'tail': '' if m else t[-2500:]}


# ---- syntactic scans ---------------------------------------------------------------------------

def scan_c15(repo):
    """operands of the bitwise operator arms of execute_op must come from to_int32/to_uint32"""
    path = os.path.join(repo, 'src/interpreter/bytecode_vm.rs')
    src = Source(path)
    toks = src.toks
    flagged, ok_sites = [], 0
    ops = ('BitAnd', 'BitOr', 'BitXor', 'LShift', 'RShift', 'URShift', 'BitNot')
    found_ops = set()
    i = 0
    while i < len(toks) - 6:
        if (toks[i].text == 'Op' and toks[i + 1].text == ':' and toks[i + 2].text == ':' and toks[i + 3].text in ops
                and toks[i + 4].text == '{'):
            close = match_close(toks, i + 4)
            if toks[close + 1].text == '=' and toks[close + 2].text == '>' and toks[close + 3].text == '{':
                arm_end = match_close(toks, close + 3)
                op = toks[i + 3].text
                found_ops.add(op)
                body = src.text[toks[close + 3].start:toks[arm_end].end]
                line0 = src.line_of(toks[close + 3].start)
                for m in re.finditer(r'to_number\s*\(\s*\)\s*(?:\)\s*)*as\s+(i32|u32|i64|u64|i16|u16|i8|u8)', body):
                    flagged.append({'site': 'src/interpreter/bytecode_vm.rs:%d' % (line0 + body.count('\n', 0, m.start())),
                                    'op': op, 'text': m.group(0)})
                ok_sites += len(re.findall(r'\bto_u?int32\s*\(', body))
                i = arm_end
        i += 1
    # every compiler table that maps a bitwise BinaryOp / AssignmentOp to an opcode must map it to the same-named one
    bitops = ('BitAnd', 'BitOr', 'BitXor', 'LShift', 'RShift', 'URShift')
    tables = 0
    for rel in ('src/compiler/compile_expr.rs', 'src/compiler/compile_stmt.rs'):
        cp = os.path.join(repo, rel)
        if not os.path.exists(cp):
            continue
        ct = open(cp).read()
        for m in re.finditer(r'BinaryOp::(\w+)\s*=>\s*(?:self\.builder\.emit\()?Op::(\w+)', ct):
            if m.group(1) in bitops or m.group(2) in bitops:
                tables += 1
                if m.group(1) != m.group(2):
                    flagged.append({'site': '%s:%d' % (rel, ct.count('\n', 0, m.start()) + 1), 'op': m.group(1), 'text': m.group(0)[:80]})
        for m in re.finditer(r'AssignmentOp::(\w+)Assign\s*=>\s*BinaryOp::(\w+)', ct):
            if m.group(1) in bitops or m.group(2) in bitops:
                tables += 1
                if m.group(1) != m.group(2):
                    flagged.append({'site': '%s:%d' % (rel, ct.count('\n', 0, m.start()) + 1), 'op': m.group(1) + 'Assign', 'text': m.group(0)[:80]})
    ok_sites += tables
    # parseInt's radix (builtins/global.rs) is a ToInt32 site too
    gp = os.path.join(repo, 'src/interpreter/builtins/global.rs')
    if os.path.exists(gp):
        gt = open(gp).read()
        for m in re.finditer(r'let radix = [^;]*;', gt):
            if re.search(r'to_number\s*\(\s*\)\s*\)?\s*as\s+i32', m.group(0)):
                flagged.append({'site': 'src/interpreter/builtins/global.rs:%d' % (gt.count('\n', 0, m.start()) + 1), 'op': 'parseInt radix',
                                'text': m.group(0)[:80]})
            elif 'to_int32' in m.group(0):
                ok_sites += 1
    return {'rule': 'operands of Op::{BitAnd,BitOr,BitXor,LShift,RShift,URShift,BitNot} arms are produced by to_int32/to_uint32, '
                    'not by a saturating `to_number() as i32/u32` cast',
            'arms_found': sorted(found_ops), 'conforming_sites': ok_sites, 'flagged_sites': flagged,
            'anchor_lost': sorted(set(ops) - found_ops)}


def scan_c10(repo):
    """no register count / argc / reserve_registers argument is formed by an unchecked `as u8`/`as u16` from a usize length"""
    flagged = []
    files = ['src/compiler/compile_expr.rs', 'src/compiler/compile_stmt.rs', 'src/compiler/compile_pattern.rs',
             'src/compiler/mod.rs']
    n_sites = 0
    for rel in files:
        path = os.path.join(repo, rel)
        if not os.path.exists(path):
            continue
        with open(path) as f:
            lines = f.read().split('\n')
        for ln, line in enumerate(lines, 1):
            code = line.split('//')[0]
            for m in re.finditer(r'([A-Za-z_][A-Za-z0-9_\.]*(?:\(\))?(?:\.len\(\))?)\s+as\s+(u8|u16)\b', code):
                expr = m.group(1)
                # narrowing of something that is (or is derived from) a length / count / index
                if re.search(r'len\(\)|count|argc|\bi\b|idx|index|num_', expr) or '.len()' in code:
                    n_sites += 1
                    # guarded if one of the preceding 12 lines compares against the width limit and bails out
                    ctx = '\n'.join(lines[max(0, ln - 14):ln])
                    guarded = bool(re.search(r'(>|>=)\s*(255|256|u8::MAX|u16::MAX|65535|65536|MAX_[A-Z_]+)|try_from|checked_', ctx))
                    if not guarded:
                        flagged.append({'site': '%s:%d' % (rel, ln), 'text': code.strip()[:160]})
    return {'rule': 'no `<length/count/index> as u8|u16` narrowing in compile_* without a limit check or try_from within the preceding lines',
            'narrowing_sites': n_sites, 'flagged_sites': flagged}


def scan_c20(repo):
    """(a) informational: set_span / emit site counts;  (b) syntactic side obligation: every function-body compiler
    created in compile_* (`Compiler::new()`) hands the source file on (`set_source_file` within the next 12 lines)
    - otherwise the frames of those functions name no file (defect 5b859d5).  Flagged sites are reported as
    unverified, never as a violation (the battery's call shapes give the failing program)."""
    n_set = n_emit = 0
    flagged = []
    for rel in ('src/compiler/compile_expr.rs', 'src/compiler/compile_stmt.rs', 'src/compiler/compile_pattern.rs'):
        p = os.path.join(repo, rel)
        if os.path.exists(p):
            t = open(p).read()
            n_set += len(re.findall(r'\.set_span\(', t))
            n_emit += len(re.findall(r'\.emit\(', t))
            lines = t.split('\n')
            for i, l in enumerate(lines):
                if re.search(r'\bCompiler::new\(\)', l) and 'let mut' in l:
                    if not any('set_source_file' in x for x in lines[i:i + 13]):
                        flagged.append('%s:%d function-body compiler created without set_source_file' % (rel, i + 1))
    # (c) a RuntimeError reaching an outer VM gets that VM's frames appended (defect 76a2deb)
    vm = os.path.join(repo, 'src/interpreter/bytecode_vm.rs')
    if os.path.exists(vm):
        t = open(vm).read()
        m = re.search(r'fn handle_error_with_trampoline_unwind\b.*?\n    \}\n', t, re.S)
        body = m.group(0) if m else ''
        if not re.search(r'JsError::RuntimeError\s*\{[^}]*stack[^}]*\}\s*=>\s*\{[^}]*stack\.extend\(\s*self\.build_stack_trace\(\)\s*\)', body, re.S):
            flagged.append('src/interpreter/bytecode_vm.rs: handle_error_with_trampoline_unwind does not append build_stack_trace() to an '
                           'incoming RuntimeError (outer frames of nested VMs)')
    return {'rule': 'function-body compilers propagate the source file (syntactic); set_span / emit counts are informational '
                    '(the set_span discipline itself is only tested by the battery)',
            'set_span_sites': n_set, 'emit_sites': n_emit, 'flagged_sites': flagged}


SCANS = {'C15': scan_c15, 'C10': scan_c10, 'C20': scan_c20}


def run(pid, P, repo, wr, work, tier, seed):
    cfg = P['side']
    res = {'kind': 'syntactic side obligation + native replay battery (NOT counted as proved)', 'scan': None,
           'battery': None, 'violations': [], 'unverified_sites': []}
    try:
        res['scan'] = SCANS[pid](repo)
    except (RsxError, OSError) as e:
        res['scan'] = {'error': str(e)}
    if wr is None:
        return res
    b = run_battery(wr, cfg, seed, cfg.get('iters_thorough', 400) if tier == 'thorough' else cfg.get('iters_quick', 40))
    res['battery'] = b
    known = [k for k in common.known_findings()['known'] if k['property'] == pid]
    for f in b['fails']:
        # a known finding is identified by obligation AND the specific failing input/signature, so that a
        # different failure of the same family is still reported
        if any(k['obligation'] == f['obligation'] and k['match'] and k['match'] in f['what'] for k in known):
            res.setdefault('known', []).append(f)
            continue
        res['violations'].append({'obligation': f['obligation'], 'what': '%s %s' % (f['obligation'], f['what']),
                                  'replay_cmd': b['cmd']})
    if res['scan'] and res['scan'].get('flagged_sites') and not b['fails']:
        res['unverified_sites'] = res['scan']['flagged_sites']
    return res


def replay(pid, P, side_violations, wr):
    cfg = P['side']
    b = run_battery(wr, cfg, 0, cfg.get('iters_quick', 40))
    for f in b['fails'][:8]:
        print('[%s] side battery: %s %s' % (pid, f['obligation'], f['what'][:300]), flush=True)
    return 1 if b['fails'] else 0
