"""Syntactic side obligations (DESIGN §4.1, §4.5): links between contracted helpers and their call sites
that neither verifier can reach.  A side obligation NEVER raises a violation by itself: it does so only
together with a failing native replay on the real build."""


def run(pid, P, repo, wr, work, tier, seed):
    return None


def replay(pid, P, side_violations, wr):
    return 0
