#!/usr/bin/env python3
"""seed_verify.py <PROP> <name> <change_dir> [--demo-mode tests|...]

Confirms a seeded property-breaking change in a scratch worktree of /repo (never in /repo itself):
  1. patch applies to HEAD, builds;  2. the whole existing test suite passes with it;
  3. the demonstration fails with the change and passes without it;
  4. runs /verif/check.py <PROP> against the changed tree (VERIF_REPO=<worktree>) and records the verdict.
Writes /verif/seeded/<name>/{patch.diff,demo.rs,notes.md,meta.json}.
"""
import json
import os
import re
import shutil
import subprocess
import sys
import time

WT = '/tmp/seedverify/wt'


def sh(cmd, cwd=None, timeout=3600, env=None):
    e = dict(os.environ)
    e['CARGO_NET_OFFLINE'] = 'true'
    if env:
        e.update(env)
    p = subprocess.run(cmd, shell=True, cwd=cwd, capture_output=True, text=True, timeout=timeout, env=e)
    return p.returncode, p.stdout + p.stderr


def main():
    prop, name, cdir = sys.argv[1], sys.argv[2], sys.argv[3]
    checks = sys.argv[4].split(',') if len(sys.argv) > 4 else [prop]
    out = os.path.join('/verif/seeded', name)
    os.makedirs(out, exist_ok=True)
    meta = {'property': prop, 'name': name, 'source_dir': cdir, 'repo_head': '', 'steps': {}, 'ran': []}
    if not os.path.exists(WT):
        os.makedirs(os.path.dirname(WT), exist_ok=True)
        rc, o = sh('git -C /repo worktree add --detach %s HEAD' % WT)
        assert rc == 0, o
    sh('git checkout -q --detach $(git -C /repo rev-parse HEAD) && git checkout -- . && git clean -fdq -e target', cwd=WT)
    meta['repo_head'] = sh('git rev-parse --short HEAD', cwd=WT)[1].strip()
    patch = os.path.join(cdir, 'patch.diff')
    demo = os.path.join(cdir, 'demo.rs')
    demo_dst = os.path.join(WT, 'tests', 'verif_seed_demo.rs')
    demo_cmd = 'cargo test --offline --test verif_seed_demo 2>&1 | tail -40'
    # demo on the clean tree
    shutil.copy(demo, demo_dst)
    rc, o = sh(demo_cmd, cwd=WT)
    m = re.findall(r'test result: (\w+)\. (\d+) passed; (\d+) failed', o)
    meta['steps']['demo_clean'] = {'cmd': demo_cmd, 'result': m, 'ok': bool(m) and all(x[0] == 'ok' for x in m)}
    meta['ran'].append('clean tree: ' + demo_cmd + ' -> ' + str(m))
    os.remove(demo_dst)
    # apply
    rc, o = sh('git apply %s || git apply --3way %s' % (patch, patch), cwd=WT)
    meta['steps']['apply'] = {'ok': rc == 0, 'out': o[-500:]}
    if rc != 0:
        json.dump(meta, open(os.path.join(out, 'meta.json'), 'w'), indent=1)
        print('PATCH DOES NOT APPLY', o)
        return 1
    rc, o = sh('cargo build --offline 2>&1 | tail -3', cwd=WT)
    meta['steps']['build'] = {'ok': 'Finished' in o, 'out': o[-300:]}
    suite = 'cargo nextest run --workspace --no-fail-fast --tool-config-file pb:/w/lib/nextest.toml --profile pb --test-threads 8 --offline 2>&1 | tail -6'
    rc, o = sh(suite, cwd=WT)
    m = re.search(r'(\d+) tests run: (\d+) passed(?: \((\d+) \w+\))?(?:, (\d+) failed)?', o)
    meta['steps']['suite_with_change'] = {'cmd': suite, 'summary': o.strip().splitlines()[-1] if o.strip() else '',
                                           'ok': bool(m) and m.group(1) == m.group(2)}
    meta['ran'].append('changed tree: full suite -> ' + (o.strip().splitlines()[-1] if o.strip() else ''))
    shutil.copy(demo, demo_dst)
    rc, o = sh(demo_cmd, cwd=WT)
    m = re.findall(r'test result: (\w+)\. (\d+) passed; (\d+) failed', o)
    meta['steps']['demo_changed'] = {'result': m, 'fails': bool(m) and any(x[0] != 'ok' for x in m)}
    meta['ran'].append('changed tree: ' + demo_cmd + ' -> ' + str(m))
    os.remove(demo_dst)
    # my checks against the changed tree
    meta['checks'] = {}
    for c in checks:
        t0 = time.time()
        rc, o = sh('python3 /verif/check.py %s --tier quick' % c, cwd='/verif', env={'VERIF_REPO': WT}, timeout=7200)
        lines = [l for l in o.splitlines() if re.search(r'VIOLATION|REFUTED|UNDECIDED|KNOWN-FINDING|\] OK', l)]
        meta['checks'][c] = {'exit': rc, 'detected': rc == 1 and 'VIOLATION' in o, 'lines': [l[:400] for l in lines[:12]],
                             'wall_s': round(time.time() - t0, 1)}
        meta['ran'].append('VERIF_REPO=<changed tree> python3 /verif/check.py %s -> exit %d' % (c, rc))
    sh('git checkout -- . && git clean -fdq -e target', cwd=WT)
    confirmed = (meta['steps']['demo_clean']['ok'] and meta['steps']['build']['ok'] and
                 meta['steps']['suite_with_change']['ok'] and meta['steps']['demo_changed']['fails'])
    meta['confirmed'] = confirmed
    shutil.copy(patch, os.path.join(out, 'patch.diff'))
    shutil.copy(demo, os.path.join(out, 'demo.rs'))
    if os.path.exists(os.path.join(cdir, 'notes.md')):
        shutil.copy(os.path.join(cdir, 'notes.md'), os.path.join(out, 'notes.md'))
    json.dump(meta, open(os.path.join(out, 'meta.json'), 'w'), indent=1)
    print(name, 'confirmed=%s' % confirmed, {c: (v['exit'], v['detected']) for c, v in meta['checks'].items()})
    return 0


if __name__ == '__main__':
    sys.exit(main())
