"""rsx - a small Rust tokenizer, item/function/loop/closure locator and splicer.

Only what the verification units need: it never evaluates or rewrites Rust semantically.  Everything
it hands out is a *byte range of the real source file*; the generator copies those bytes verbatim
and applies a list of explicit edits (insertions, deletions, R-rule replacements), each tagged, so
the evidence can state exactly what differs between the verified text and /repo.
"""
import hashlib
import re
from dataclasses import dataclass, field

OPEN = {'(': ')', '[': ']', '{': '}'}
CLOSE = {v: k for k, v in OPEN.items()}


class RsxError(Exception):
    """Anchor lost / construct outside the supported subset.  Mapped to exit 2, never to a violation."""


@dataclass
class Tok:
    kind: str   # ident, num, str, char, life, punct
    text: str
    start: int
    end: int


_IDENT_START = re.compile(r'[A-Za-z_]')
_IDENT = re.compile(r'[A-Za-z_][A-Za-z0-9_]*')
_NUM = re.compile(r'[0-9][0-9A-Za-z_]*')


def tokenize(src: str, base: int = 0):
    """Tokens of src (comments and whitespace dropped).  Offsets are base + index in src."""
    toks = []
    i, n = 0, len(src)
    while i < n:
        c = src[i]
        if c in ' \t\r\n':
            i += 1
            continue
        if src.startswith('//', i):
            j = src.find('\n', i)
            i = n if j < 0 else j
            continue
        if src.startswith('/*', i):
            depth, j = 1, i + 2
            while j < n and depth:
                if src.startswith('/*', j):
                    depth += 1
                    j += 2
                elif src.startswith('*/', j):
                    depth -= 1
                    j += 2
                else:
                    j += 1
            i = j
            continue
        # raw / byte / c strings
        m = re.match(r'(?:br|b|cr|c|r)?(#*)"', src[i:i + 40]) if c in 'brc"' else None
        if m and (c == '"' or m.group(0)[0] in 'brc'):
            prefix = m.group(0)
            hashes = m.group(1)
            israw = 'r' in prefix[:-1 - len(hashes)]
            if hashes and not israw:
                m = None
            else:
                j = i + len(prefix)
                if israw:
                    endpat = '"' + hashes
                    k = src.find(endpat, j)
                    if k < 0:
                        raise RsxError('unterminated raw string at %d' % (base + i))
                    j = k + len(endpat)
                else:
                    while j < n and src[j] != '"':
                        j += 2 if src[j] == '\\' else 1
                    j += 1
                toks.append(Tok('str', src[i:j], base + i, base + j))
                i = j
                continue
        if c == "'":
            # char literal or lifetime
            if i + 1 < n and src[i + 1] == '\\':
                j = i + 3
                while j < n and src[j] != "'":
                    j += 1
                j += 1
                toks.append(Tok('char', src[i:j], base + i, base + j))
                i = j
                continue
            # one (possibly multibyte) char followed by '
            if i + 2 < n and src[i + 2] == "'":
                toks.append(Tok('char', src[i:i + 3], base + i, base + i + 3))
                i += 3
                continue
            m2 = _IDENT.match(src, i + 1)
            if m2:
                toks.append(Tok('life', src[i:m2.end()], base + i, base + m2.end()))
                i = m2.end()
                continue
            raise RsxError("stray ' at %d" % (base + i))
        if c == 'b' and i + 1 < n and src[i + 1] == "'":
            j = i + 2
            if src[j] == '\\':
                j += 2
            while j < n and src[j] != "'":
                j += 1
            j += 1
            toks.append(Tok('char', src[i:j], base + i, base + j))
            i = j
            continue
        if c.isdigit():
            m3 = _NUM.match(src, i)
            j = m3.end()
            # fractional part: '.' followed by a digit (not '..', not a method call)
            if j < n and src[j] == '.' and j + 1 < n and src[j + 1].isdigit():
                m4 = _NUM.match(src, j + 1)
                j = m4.end()
            # exponent sign
            if j < n and src[j] in '+-' and src[j - 1] in 'eE' and not src[i:j].startswith('0x'):
                m5 = _NUM.match(src, j + 1)
                if m5:
                    j = m5.end()
            toks.append(Tok('num', src[i:j], base + i, base + j))
            i = j
            continue
        if _IDENT_START.match(c):
            if src.startswith('r#', i) and i + 2 < n and _IDENT_START.match(src[i + 2]):
                m6 = _IDENT.match(src, i + 2)
                toks.append(Tok('ident', src[i:m6.end()], base + i, base + m6.end()))
                i = m6.end()
                continue
            m6 = _IDENT.match(src, i)
            toks.append(Tok('ident', m6.group(0), base + i, base + m6.end()))
            i = m6.end()
            continue
        toks.append(Tok('punct', c, base + i, base + i + 1))
        i += 1
    return toks


def match_close(toks, i):
    """Index of the token closing the bracket opened at toks[i]."""
    depth = 0
    for j in range(i, len(toks)):
        t = toks[j]
        if t.kind == 'punct':
            if t.text in OPEN:
                depth += 1
            elif t.text in CLOSE:
                depth -= 1
                if depth == 0:
                    return j
    raise RsxError('unbalanced bracket at byte %d' % toks[i].start)


ITEM_KW = {'struct', 'enum', 'fn', 'impl', 'const', 'type', 'trait', 'mod', 'use', 'static', 'union',
           'macro_rules', 'extern'}
FN_QUAL = {'unsafe', 'async', 'const', 'extern', 'default'}


@dataclass
class Item:
    kind: str             # struct enum fn impl const type ...
    name: str             # item name; for impl: self type name
    trait: str            # for impl: trait name or ''
    first: int            # index of first token incl. attributes/visibility
    kw: int               # index of keyword token
    last: int             # index of last token (closing brace or ';')
    body_open: int = -1   # index of '{' (if block item)
    attrs: list = field(default_factory=list)   # [(first_tok, last_tok)] of each #[..]
    vis: tuple = None     # (first_tok, last_tok) of visibility qualifier


def _skip_generics(toks, i):
    """toks[i] is '<': return index after the matching '>' (handles '->' and nesting)."""
    depth = 0
    j = i
    while j < len(toks):
        t = toks[j]
        if t.kind == 'punct':
            if t.text == '<':
                depth += 1
            elif t.text == '>' and not (toks[j - 1].text == '-' and toks[j - 1].end == t.start):
                depth -= 1
                if depth == 0:
                    return j + 1
            elif t.text in OPEN:
                j = match_close(toks, j)
        j += 1
    raise RsxError('unbalanced generics')


def parse_items(toks, lo, hi):
    """Items among toks[lo:hi] (one nesting level)."""
    items = []
    i = lo
    while i < hi:
        first = i
        attrs = []
        while i < hi and toks[i].text == '#':
            j = i + 1
            if toks[j].text == '!':
                j += 1
            if toks[j].text != '[':
                raise RsxError('bad attribute')
            e = match_close(toks, j)
            attrs.append((i, e))
            i = e + 1
        vis = None
        if i < hi and toks[i].text == 'pub':
            v0 = i
            i += 1
            if i < hi and toks[i].text == '(':
                i = match_close(toks, i) + 1
            vis = (v0, i - 1)
        q = i
        while q < hi and toks[q].kind == 'ident' and toks[q].text in FN_QUAL and toks[q].text != 'const':
            q += 1
            if toks[q].kind == 'str':      # extern "C"
                q += 1
        if q < hi and toks[q].text == 'const' and q + 1 < hi and toks[q + 1].text in ('fn', 'unsafe', 'async', 'extern'):
            q += 1
            while toks[q].text in FN_QUAL:
                q += 1
        if q >= hi:
            break
        kwt = toks[q]
        if kwt.kind != 'ident' or kwt.text not in ITEM_KW:
            # not an item start (e.g. macro invocation `foo! { }` or stray token): skip to ; or block end
            j = q
            while j < hi and toks[j].text not in (';', '{'):
                if toks[j].text in OPEN:
                    j = match_close(toks, j)
                j += 1
            if j < hi and toks[j].text == '{':
                j = match_close(toks, j)
            i = j + 1
            continue
        kind = kwt.text
        name, trait = '', ''
        j = q + 1
        if kind == 'impl':
            if toks[j].text == '<':
                j = _skip_generics(toks, j)
            # header up to '{' or 'where'
            h = j
            hdr = []
            while toks[h].text not in ('{', 'where'):
                if toks[h].text == '<':
                    h = _skip_generics(toks, h)
                    continue
                hdr.append(toks[h])
                h += 1
            names = [t.text for t in hdr if t.kind == 'ident']
            if 'for' in names:
                k = names.index('for')
                trait = names[k - 1] if k > 0 else ''
                rest = [x for x in names[k + 1:] if x not in ('dyn', 'mut', 'const')]
                name = rest[-1] if rest else ''
                # last path segment of the self type
            else:
                rest = [x for x in names if x not in ('dyn', 'mut', 'const')]
                name = rest[-1] if rest else ''
        elif kind in ('macro_rules',):
            name = toks[j + 1].text if toks[j].text == '!' else ''
        else:
            if j < hi and toks[j].kind == 'ident':
                name = toks[j].text
        # find end: first '{' or ';' at bracket depth 0
        k = q + 1
        body_open = -1
        while k < hi:
            t = toks[k]
            if t.text == ';':
                break
            if t.text == '{':
                body_open = k
                k = match_close(toks, k)
                break
            if t.text in ('(', '['):
                k = match_close(toks, k)
            elif t.text == '<' and kind in ('fn', 'impl', 'struct', 'enum', 'trait', 'type'):
                k = _skip_generics(toks, k) - 1
            k += 1
        if kind in ('struct',) and body_open < 0:
            pass
        items.append(Item(kind, name, trait, first, q, k, body_open, attrs, vis))
        i = k + 1
    return items


@dataclass
class Loop:
    kw: int          # token index of while/for/loop
    body_open: int
    body_close: int
    kind: str


@dataclass
class Closure:
    bar1: int        # first '|'
    bar2: int        # closing '|'
    params: list     # [(first_tok,last_tok)] per parameter
    body_first: int
    body_last: int
    block: bool      # body is a `{ .. }` block


@dataclass
class Fn:
    item: Item
    name: str
    params_open: int
    params_close: int
    arrow: int       # index of '-' of '->' or -1
    ret_first: int
    ret_last: int
    body_open: int
    body_close: int
    loops: list
    closures: list


CLOSURE_PREV = {'(', ',', '=', '{', ';', 'move', 'return', '>', ':'}


def parse_fn(toks, item: Item) -> Fn:
    if item.kind != 'fn' or item.body_open < 0:
        raise RsxError('not a function with a body: %s' % item.name)
    j = item.kw + 2
    if toks[j].text == '<':
        j = _skip_generics(toks, j)
    if toks[j].text != '(':
        raise RsxError('fn %s: parameter list not found' % item.name)
    po, pc = j, match_close(toks, j)
    arrow, rf, rl = -1, -1, -1
    j = pc + 1
    if toks[j].text == '-' and toks[j + 1].text == '>':
        arrow = j
        rf = j + 2
        k = rf
        while k < item.body_open and toks[k].text != 'where':
            if toks[k].text in ('(', '['):
                k = match_close(toks, k)
            k += 1
        rl = k - 1
    bo, bc = item.body_open, item.last
    loops, closures = [], []
    k = bo + 1
    while k < bc:
        t = toks[k]
        if t.kind == 'ident' and t.text in ('while', 'loop', 'for'):
            # `for` must be a loop: next-next contains `in` before the brace
            m = k + 1
            while m < bc and toks[m].text != '{':
                if toks[m].text in ('(', '['):
                    m = match_close(toks, m)
                m += 1
            if m < bc:
                loops.append(Loop(k, m, match_close(toks, m), t.text))
        elif t.text == '|' and toks[k - 1].text in CLOSURE_PREV and not (
                toks[k - 1].text == '>' and toks[k - 2].text != '='):
            # closure: parameters up to next '|' at depth 0
            m = k + 1
            params = []
            pstart = m
            if toks[m].text == '|' and toks[m].start == toks[k].end and False:
                pass
            while toks[m].text != '|':
                if toks[m].text in OPEN:
                    m = match_close(toks, m)
                elif toks[m].text == '<':
                    m = _skip_generics(toks, m) - 1
                elif toks[m].text == ',':
                    params.append((pstart, m - 1))
                    pstart = m + 1
                m += 1
            if m > pstart:
                params.append((pstart, m - 1))
            bar2 = m
            b0 = m + 1
            if toks[b0].text == '{':
                cl = Closure(k, bar2, params, b0, match_close(toks, b0), True)
            else:
                e = b0
                while e < bc:
                    tt = toks[e].text
                    if tt in OPEN:
                        e = match_close(toks, e)
                    elif tt in CLOSE or tt in (',', ';'):
                        break
                    e += 1
                cl = Closure(k, bar2, params, b0, e - 1, False)
            closures.append(cl)
            k = bar2
        k += 1
    return Fn(item, item.name, po, pc, arrow, rf, rl, bo, bc, loops, closures)


class Source:
    def __init__(self, path):
        self.path = path
        with open(path, encoding='utf-8') as f:
            self.text = f.read()
        self.toks = tokenize(self.text)
        self.items = parse_items(self.toks, 0, len(self.toks))

    def line_of(self, off):
        return self.text.count('\n', 0, off) + 1

    def find(self, kind, name, trait=None):
        c = [it for it in self.items if it.kind == kind and it.name == name
             and (trait is None or it.trait == trait)]
        if kind == 'impl' and trait is None:
            c = [it for it in c if it.trait == '']
        if not c:
            raise RsxError('anchor lost: %s %s%s not found in %s' % (
                kind, (trait + ' for ') if trait else '', name, self.path))
        return c

    def impl_fns(self, type_name, trait=None):
        out = {}
        for imp in self.find('impl', type_name, trait):
            for it in parse_items(self.toks, imp.body_open + 1, imp.last):
                if it.kind == 'fn':
                    out[it.name] = it
        return out

    def text_of(self, a, b):
        """source text from token a through token b inclusive"""
        return self.text[self.toks[a].start:self.toks[b].end]

    def sha(self, item):
        return hashlib.sha256(self.text_of(item.kw, item.last).encode()).hexdigest()[:16]


@dataclass
class Edit:
    start: int      # byte offset in the source file
    end: int        # == start for pure insertions
    text: str
    tag: str        # D1, D2, A1.. R1..
    order: int = 0  # tie-break for insertions at the same offset


def apply_edits(src_text, lo, hi, edits):
    """Apply edits to src_text[lo:hi].  Returns (out, inserted_spans, line_origin).
    inserted_spans: [(start,end,tag)] ranges of `out` not coming from the source.
    line_origin: for every output line, the source byte offset it starts at (or None if inserted)."""
    edits = sorted(edits, key=lambda e: (e.start, e.end != e.start, e.order))
    out = []
    pos = lo
    cur = 0
    spans = []
    origin = []   # list of (out_start, out_end, src_start) for verbatim pieces
    for e in edits:
        if e.start < pos:
            raise RsxError('overlapping edits at %d (%s)' % (e.start, e.tag))
        if e.start > hi:
            raise RsxError('edit outside item')
        piece = src_text[pos:e.start]
        if piece:
            origin.append((cur, cur + len(piece), pos))
            out.append(piece)
            cur += len(piece)
        if e.text:
            spans.append((cur, cur + len(e.text), e.tag))
            out.append(e.text)
            cur += len(e.text)
        pos = e.end
    piece = src_text[pos:hi]
    if piece:
        origin.append((cur, cur + len(piece), pos))
        out.append(piece)
    return ''.join(out), spans, origin


def strip_spans(text, spans):
    out, pos = [], 0
    for s, e, _ in sorted(spans):
        out.append(text[pos:s])
        out.append(' ')
        pos = e
    out.append(text[pos:])
    return ''.join(out)


def tok_texts(text):
    return [t.text for t in tokenize(text)]
