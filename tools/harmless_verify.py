#!/usr/bin/env python3
"""harmless_verify.py <out-dir-of-agent> <name-prefix> <PROP>[,<PROP>..]

Applies each behaviour-preserving refactoring produced by an independent sub-agent to a scratch copy of /repo
and runs the given quick checks against it.  Expected: never red (exit 1 / VIOLATION); exit 2 (undecided) is a
brittleness note, not a false alarm.  Records canaries/harmless_agents/<name>/{patch.diff,notes.md,result.json}."""
import json
import os
import shutil
import subprocess
import sys

HERE = os.path.dirname(os.path.dirname(os.path.abspath(__file__)))
SCRATCH = '/tmp/verif-harmless/repo'


def main():
    src, prefix, props = sys.argv[1], sys.argv[2], sys.argv[3].split(',')
    os.makedirs(SCRATCH, exist_ok=True)
    rows = []
    for d in sorted(os.listdir(src)):
        patch = os.path.join(src, d, 'patch.diff')
        if not os.path.isfile(patch):
            continue
        name = '%s-%s' % (prefix, d)
        subprocess.run(['rsync', '-a', '--delete', '--exclude', '/target', '--exclude', '/.git', '--exclude', '/test262',
                        '--exclude', '/site', '/repo/', SCRATCH + '/'], check=True)
        r = subprocess.run(['patch', '-p1', '-s', '-i', patch], cwd=SCRATCH, capture_output=True, text=True)
        res = {'name': name, 'applies': r.returncode == 0, 'checks': {}}
        touched = subprocess.run("grep '^+++ b/' %s | sed 's#+++ b/##'" % patch, shell=True, capture_output=True, text=True).stdout.split()
        res['files'] = touched
        if r.returncode == 0:
            for p in props:
                env = dict(os.environ, VERIF_REPO=SCRATCH)
                c = subprocess.run(['python3', os.path.join(HERE, 'check.py'), p, '--tier', 'quick'], env=env, capture_output=True, text=True)
                red = c.returncode == 1 and 'VIOLATION' in c.stdout
                got = 'red' if red else ('green' if c.returncode == 0 else 'undecided')
                lines = [l[:300] for l in c.stdout.splitlines() if 'REFUTED' in l or 'UNDECIDED' in l][:3]
                res['checks'][p] = {'verdict': got, 'lines': lines}
        out = os.path.join(HERE, 'canaries', 'harmless_agents', name)
        os.makedirs(out, exist_ok=True)
        shutil.copy(patch, os.path.join(out, 'patch.diff'))
        if os.path.exists(os.path.join(src, d, 'notes.md')):
            shutil.copy(os.path.join(src, d, 'notes.md'), os.path.join(out, 'notes.md'))
        json.dump(res, open(os.path.join(out, 'result.json'), 'w'), indent=1)
        rows.append(res)
        print(name, res['applies'], {p: v['verdict'] for p, v in res['checks'].items()}, touched, flush=True)
        for p, v in res['checks'].items():
            for l in v['lines'][:1]:
                print('     ', p, l[:200])
    shutil.rmtree('/tmp/verif-harmless', ignore_errors=True)
    return 0


if __name__ == '__main__':
    sys.exit(main())
