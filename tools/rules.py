"""Rewrite rules R1..R6 (C18 unit only): std string call forms -> trusted wrappers.  See DESIGN §4.3."""
from rsx import Edit, RsxError, match_close


def apply_rules(src, fn, rules, edits, stats):
    raise RsxError('rules not implemented yet')
