"""Rewrite rules R1..R6 (C18 unit only): std string call forms -> trusted wrappers.  See DESIGN §4.3.

Purely syntactic, applied to the token stream of one function body; every application is one tagged
Edit (counted in the evidence).  The wrappers (verus/modpath_pre.rs) are `external_body` functions whose
bodies are exactly the std calls the rule replaces, so the rewritten text computes what the source
computes provided the wrapper contracts hold (TRUSTED, listed under assumptions).

  R1  for PAT in E.split(C) {..}                -> for PAT in vf_split(E, C) {..}
  R2  V.join(L)                                  -> vf_join(&V, L)
  R3  format!("lit{}lit{}..", A, B)              -> vf_concat2/3(pieces and args in order)   (R3=kinds: str|String per arg)
  R4  E.starts_with('c') / E.starts_with("lit")  -> vf_starts_with_char(E, 'c') / vf_starts_with_str(E, "lit")
  R5  E.rfind(C).and_then(|i| E.get(..i))        -> vf_before_last(&E, C)
  R6  E.to_string()                              -> vf_to_string(E)
  R8  E.to_bits()                                -> vf_to_bits(E)                           (builder unit; f64 bit pattern as an uninterpreted view)
  R9  V.binary_search_by_key(&K, |e| e.bytecode_offset) -> vf_bsearch_offset(&V, K)       (builder unit; std contract assumed, cross-checked by bounded Kani)
  R10 V.retain(|&r| r < P)                       -> vf_retain_lt(&mut V, P)                (builder unit; Vec::retain == order-preserving filter, cross-checked by bounded Kani)
  R11 for X in E.iter().rev() { B }              -> let mut vf_i: usize = E.len(); while vf_i > 0 { vf_i = vf_i - 1; let X = &E[vf_i]; B }
                                                    (trace unit; E a field path; TRUSTED: slice::Iter + Rev visit the elements in descending index order, each once)
  R7  if let Some(&X) = E {..}                   -> if let Some(X) = vf_copied(E) {..}      (builder unit; Verus has no ref patterns)
"""
import re

from rsx import Edit, RsxError, match_close


def _receiver_start(toks, dot):
    """index of the first token of the postfix-chain receiver that ends right before toks[dot] ('.')"""
    i = dot - 1
    if toks[i].kind not in ('ident', 'num'):
        raise RsxError('unsupported construct: receiver of a rewritten std call is not a simple path')
    while i - 2 >= 0 and toks[i - 1].text == '.' and toks[i - 2].kind in ('ident', 'num'):
        i -= 2
    return i


def _text(src, a, b):
    return src.text[src.toks[a].start:src.toks[b].end]


def _args(src, lo, hi):
    """split tokens lo..hi (exclusive of the parens) at top-level commas -> [(a,b)]"""
    toks = src.toks
    out = []
    start = lo
    i = lo
    while i <= hi:
        t = toks[i].text
        if t in ('(', '[', '{'):
            i = match_close(toks, i)
        elif t == ',':
            if i > start:
                out.append((start, i - 1))
            start = i + 1
        i += 1
    if start <= hi:
        out.append((start, hi))
    return out


class Rewriter:
    def __init__(self, src, rules, stats):
        self.src = src
        self.toks = src.toks
        self.rules = {}
        for r in rules:
            if '=' in r:
                k, v = r.split('=', 1)
                self.rules[k] = v.split(',')
            else:
                self.rules[r] = True
        self.stats = stats

    def on(self, r):
        return r in self.rules

    def rewrite(self, lo, hi):
        """text of tokens lo..hi with the enabled rules applied (recursively)"""
        toks = self.toks
        out = []
        pos = toks[lo].start
        i = lo
        while i <= hi:
            m = self.match_at(i, hi)
            if m:
                a, b, text = m
                out.append(self.src.text[pos:toks[a].start])
                out.append(text)
                pos = toks[b].end
                i = b + 1
                continue
            i += 1
        out.append(self.src.text[pos:toks[hi].end])
        return ''.join(out)

    def match_at(self, i, hi):
        """a rule application that STARTS at token i: (first_tok, last_tok, replacement) or None"""
        toks = self.toks
        t = toks[i]
        # R3 format!( "..", args )
        if self.on('R3') and t.text == 'format' and i + 2 <= hi and toks[i + 1].text == '!' and toks[i + 2].text == '(':
            close = match_close(toks, i + 2)
            args = _args(self.src, i + 3, close - 1)
            if not args or toks[args[0][0]].kind != 'str' or args[0][0] != args[0][1]:
                raise RsxError('unsupported construct: format! without a literal format string')
            fmt = toks[args[0][0]].text
            if not (fmt.startswith('"') and fmt.endswith('"')) or '\\' in fmt or '{{' in fmt:
                raise RsxError('unsupported construct: format string %s' % fmt)
            pieces = fmt[1:-1].split('{}')
            if any('{' in p or '}' in p for p in pieces):
                raise RsxError('unsupported construct: format string %s (only {} placeholders)' % fmt)
            kinds = self.rules['R3'] if isinstance(self.rules['R3'], list) else []
            rest = args[1:]
            if len(pieces) - 1 != len(rest) or len(kinds) != len(rest):
                raise RsxError('anchor lost: format! arity changed (R3 kinds %s)' % kinds)
            parts = []
            for k, p in enumerate(pieces):
                if p:
                    parts.append('"%s"' % p)
                if k < len(rest):
                    a = self.rewrite(rest[k][0], rest[k][1])
                    parts.append(a if kinds[k] == 'str' else '%s.as_str()' % a)
            if len(parts) not in (2, 3):
                raise RsxError('unsupported construct: format! with %d pieces' % len(parts))
            self.stats['R3'] += 1
            return (i, close, 'vf_concat%d(%s)' % (len(parts), ', '.join(parts)))
        # receiver-based rules: look for `<recv> . method (` where recv starts at i
        if t.kind in ('ident',) and (i == 0 or toks[i - 1].text not in ('.', '::')):
            j = i
            while j + 2 <= hi and toks[j + 1].text == '.' and toks[j + 2].kind in ('ident', 'num'):
                # candidate method at j+2 if followed by '('
                if j + 3 <= hi and toks[j + 3].text == '(' and toks[j + 2].kind == 'ident':
                    meth = toks[j + 2].text
                    recv = _text(self.src, i, j)
                    close = match_close(toks, j + 3)
                    if meth == 'join' and self.on('R2') and i == j:
                        args = _args(self.src, j + 4, close - 1)
                        if len(args) == 1:
                            self.stats['R2'] += 1
                            return (i, close, 'vf_join(&%s, %s)' % (recv, self.rewrite(*args[0])))
                    if meth == 'starts_with' and self.on('R4'):
                        args = _args(self.src, j + 4, close - 1)
                        if len(args) == 1 and args[0][0] == args[0][1] and toks[args[0][0]].kind in ('char', 'str'):
                            lit = toks[args[0][0]]
                            self.stats['R4'] += 1
                            fn = 'vf_starts_with_char' if lit.kind == 'char' else 'vf_starts_with_str'
                            return (i, close, '%s(%s, %s)' % (fn, recv, lit.text))
                        raise RsxError('unsupported construct: starts_with with a non-literal pattern')
                    if meth == 'binary_search_by_key' and self.on('R9'):
                        # V.binary_search_by_key(&K, |e| e.bytecode_offset)  -> vf_bsearch_offset(&V, K)
                        args = _args(self.src, j + 4, close - 1)
                        if len(args) == 2 and toks[args[0][0]].text == '&':
                            key = _text(self.src, args[0][0] + 1, args[0][1])
                            clo = [x.text for x in toks[args[1][0]:args[1][1] + 1]]
                            if len(clo) == 6 and clo[0] == '|' and clo[2] == '|' and clo[3] == clo[1] and clo[4] == '.' and clo[5] == 'bytecode_offset':
                                self.stats['R9'] += 1
                                return (i, close, 'vf_bsearch_offset(&%s, %s)' % (recv, key))
                        raise RsxError('unsupported construct: binary_search_by_key not in the form V.binary_search_by_key(&K, |e| e.bytecode_offset)')
                    if meth == 'retain' and self.on('R10'):
                        # V.retain(|&r| r < P)  -> vf_retain_lt(&mut V, P)
                        clo = [x.text for x in toks[j + 4:close]]
                        if (len(clo) >= 7 and clo[0] == '|' and clo[1] == '&' and clo[3] == '|' and clo[4] == clo[2] and clo[5] == '<'):
                            self.stats['R10'] += 1
                            return (i, close, 'vf_retain_lt(&mut %s, %s)' % (recv, _text(self.src, j + 4 + 6, close - 1)))
                        raise RsxError('unsupported construct: retain not in the form V.retain(|&r| r < P)')
                    if meth == 'to_bits' and self.on('R8') and close == j + 4:
                        self.stats['R8'] += 1
                        return (i, close, 'vf_to_bits(%s)' % recv)
                    if meth == 'to_string' and self.on('R6') and close == j + 4:
                        self.stats['R6'] += 1
                        return (i, close, 'vf_to_string(%s)' % recv)
                    if meth == 'rfind' and self.on('R5'):
                        # E.rfind(C).and_then(|I| E.get(..I))
                        cargs = _args(self.src, j + 4, close - 1)
                        k = close
                        if (len(cargs) == 1 and k + 3 <= hi and toks[k + 1].text == '.' and toks[k + 2].text == 'and_then'
                                and toks[k + 3].text == '('):
                            c2 = match_close(toks, k + 3)
                            inner = [x.text for x in toks[k + 4:c2]]
                            rt = [x.text for x in toks[i:j + 1]]
                            if (len(inner) >= 4 and inner[0] == '|' and inner[2] == '|' and inner[3:3 + len(rt)] == rt
                                    and inner[3 + len(rt):] == ['.', 'get', '(', '.', '.', inner[1], ')']):
                                self.stats['R5'] += 1
                                return (i, c2, 'vf_before_last(&%s, %s)' % (recv, _text(self.src, *cargs[0])))
                        raise RsxError('unsupported construct: rfind not in the form E.rfind(C).and_then(|i| E.get(..i))')
                    break
                j += 2
        return None


def apply_rules(src, fn, rules, edits, stats):
    toks = src.toks
    rw = Rewriter(src, rules, stats)
    # R1: for-loop headers
    skip = []
    if rw.on('R1'):
        for L in fn.loops:
            if L.kind != 'for':
                continue
            k = L.kw + 1
            while toks[k].text != 'in':
                k += 1
            lo, hi = k + 1, L.body_open - 1
            # E . split ( C )  must be the whole iterated expression
            if toks[hi].text == ')':
                p = hi
                depth = 0
                while p >= lo:
                    if toks[p].text == ')':
                        depth += 1
                    elif toks[p].text == '(':
                        depth -= 1
                        if depth == 0:
                            break
                    p -= 1
                if p - 2 >= lo and toks[p - 1].text == 'split' and toks[p - 2].text == '.':
                    recv = _text(src, lo, p - 3)
                    arg = _text(src, p + 1, hi - 1)
                    if toks[p + 1].kind != 'char':
                        raise RsxError('unsupported construct: split with a non-char pattern')
                    edits.append(Edit(toks[lo].start, toks[hi].end, 'vf_split(%s, %s)' % (recv, arg), 'R1'))
                    stats['R1'] += 1
                    skip.append((lo, hi))
    # R11: `for X in E.iter().rev() {`  (Verus has no iterator adapters): descending index loop over the same Vec
    if rw.on('R11'):
        r11_before = stats['R11']
        for L in fn.loops:
            if L.kind != 'for':
                continue
            k = L.kw + 1
            if toks[k].kind != 'ident' or toks[k + 1].text != 'in':
                continue
            lo, hi = k + 2, L.body_open - 1
            tail = [t.text for t in toks[hi - 7:hi + 1]]
            if tail != ['.', 'iter', '(', ')', '.', 'rev', '(', ')']:
                continue
            recv_toks = toks[lo:hi - 7]
            if not recv_toks or any(not (t.kind == 'ident' or t.text in ('.', 'self')) for t in recv_toks):
                raise RsxError('unsupported construct: for .. in E.iter().rev() with E not a plain field path')
            recv = _text(src, lo, hi - 8)
            var = toks[k].text
            edits.append(Edit(toks[L.kw].start, toks[hi].end,
                              'let mut vf_i: usize = %s.len();\n        while vf_i > 0' % recv, 'R11'))
            edits.append(Edit(toks[L.body_open].end, toks[L.body_open].end,
                              '\n            vf_i = vf_i - 1;\n            let %s = &%s[vf_i];' % (var, recv), 'R11', 0))
            stats['R11'] += 1
            skip.append((L.kw, hi))
        if stats['R11'] == r11_before:
            raise RsxError('anchor lost: rule R11 finds no `for X in E.iter().rev()` loop in %s' % fn.name)
    # R7: `if let Some(&X) = E {`  (ref pattern on a Copy payload == Option::copied)
    if rw.on('R7'):
        i = fn.body_open + 1
        while i < fn.body_close - 8:
            if ([t.text for t in toks[i:i + 5]] == ['if', 'let', 'Some', '(', '&'] and toks[i + 5].kind == 'ident'
                    and toks[i + 6].text == ')' and toks[i + 7].text == '='):
                j = i + 8
                while toks[j].text != '{':
                    if toks[j].text in ('(', '['):
                        j = match_close(toks, j)
                    j += 1
                edits.append(Edit(toks[i + 4].start, toks[i + 4].end, '', 'R7'))
                edits.append(Edit(toks[i + 8].start, toks[i + 8].start, 'vf_copied(', 'R7'))
                edits.append(Edit(toks[j - 1].end, toks[j - 1].end, ')', 'R7'))
                stats['R7'] += 1
                i = j
            i += 1
    # the remaining rules: scan the body left to right
    i = fn.body_open + 1
    hi = fn.body_close - 1
    while i <= hi:
        if any(a <= i <= b for a, b in skip):
            i += 1
            continue
        m = rw.match_at(i, hi)
        if m:
            a, b, text = m
            edits.append(Edit(toks[a].start, toks[b].end, text, 'R'))
            i = b + 1
            continue
        i += 1
