#!/usr/bin/env python3
"""setup_cmd: nothing to build (python3 stdlib only); verifies the tools are on PATH and warms Verus."""
import os
import shutil
import subprocess
import sys
import tempfile

missing = [t for t in ('verus', 'cargo', 'rsync') if not shutil.which(t)]
if missing:
    print('missing tools:', missing)
    sys.exit(1)
r = subprocess.run(['cargo', 'kani', '--version'], capture_output=True, text=True)
print((r.stdout or r.stderr).strip())
d = tempfile.mkdtemp(prefix='verif-setup-')
p = os.path.join(d, 'warm.rs')
with open(p, 'w') as f:
    f.write('use vstd::prelude::*;\nverus! { proof fn t() ensures 1 + 1 == 2 {} }\nfn main() {}\n')
r = subprocess.run(['verus', p], capture_output=True, text=True, cwd=d)
print(r.stdout.strip().splitlines()[-1] if r.stdout.strip() else r.stderr[-300:])
shutil.rmtree(d, ignore_errors=True)
os.makedirs('/verif/.cache', exist_ok=True)
os.makedirs('/verif/evidence', exist_ok=True)
sys.exit(0 if r.returncode == 0 else 1)
