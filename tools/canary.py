#!/usr/bin/env python3
"""canary.py [name-substring ...]  - self-test of the checks on deliberately edited scratch copies of /repo.

harmless-* edits must stay green (exit 0; 'not-red' tolerates exit 2 = undecided, never a VIOLATION),
break-* edits must turn the check red (exit 1 + VIOLATION).  Never touches /repo."""
import json
import os
import shutil
import subprocess
import sys
import time

HERE = os.path.dirname(os.path.dirname(os.path.abspath(__file__)))
SCRATCH = '/tmp/verif-canary/repo'


def main():
    sel = sys.argv[1:]
    cans = json.load(open(os.path.join(HERE, 'canaries', 'canaries.json')))
    os.makedirs(SCRATCH, exist_ok=True)
    results = []
    for c in cans:
        if sel and not any(s in c['name'] for s in sel):
            continue
        subprocess.run(['rsync', '-a', '--delete', '--exclude', '/target', '--exclude', '/.git', '--exclude', '/test262',
                        '--exclude', '/site', '/repo/', SCRATCH + '/'], check=True)
        p = os.path.join(SCRATCH, c['file'])
        s = open(p).read()
        ok = True
        for old, new in c['edits']:
            if old not in s:
                ok = False
                print('%s: ANCHOR NOT FOUND: %r' % (c['name'], old[:60]))
                break
            s = s.replace(old, new, 1)
        if not ok:
            results.append((c['name'], c['expect'], 'anchor-lost', False))
            continue
        open(p, 'w').write(s)
        t0 = time.time()
        env = dict(os.environ, VERIF_REPO=SCRATCH)
        r = subprocess.run(['python3', os.path.join(HERE, 'check.py'), c['prop'], '--tier', 'quick'], env=env,
                           capture_output=True, text=True)
        red = r.returncode == 1 and 'VIOLATION' in r.stdout
        got = 'red' if red else ('green' if r.returncode == 0 else 'undecided')
        good = (c['expect'] == got) or (c['expect'] == 'not-red' and got != 'red')
        lines = [l for l in r.stdout.splitlines() if 'REFUTED' in l or 'UNDECIDED' in l][:2]
        print('%-45s expect=%-8s got=%-9s %s %.0fs %s' % (c['name'], c['expect'], got, 'OK' if good else 'MISMATCH', time.time() - t0,
                                                      (lines[0][:160] if lines else '')), flush=True)
        results.append((c['name'], c['expect'], got, good))
    shutil.rmtree('/tmp/verif-canary', ignore_errors=True)
    bad = [r for r in results if not r[3]]
    json.dump([{'name': n, 'expect': e, 'got': g, 'ok': k} for n, e, g, k in results],
              open(os.path.join(HERE, 'canaries', 'last_run.json'), 'w'), indent=1)
    print('%d canaries, %d mismatches' % (len(results), len(bad)))
    return 1 if bad else 0


if __name__ == '__main__':
    sys.exit(main())
