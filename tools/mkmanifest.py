#!/usr/bin/env python3
"""Regenerates /verif/MANIFEST.json from tools/props.py + the not_applicable table below."""
import json
import os
import sys
HERE = os.path.dirname(os.path.abspath(__file__))
sys.path.insert(0, HERE)
from props import PROPS  # noqa

NA = {
 "C01": "quantifies over all programs through lexer+parser+compiler+VM+built-ins against the ECMAScript spec; would need a formal language semantics and contracts on ~50 kLoC that neither Verus nor Kani can ingest (DESIGN §5)",
 "C02": "whole-program guard-reachability invariant over Rc<RefCell>/NonNull heap code and every native's guard discipline; outside Verus's subset, Kani gives no verdict even on a concrete 2-object heap history (DESIGN §2, §5)",
 "C03": "relational property of the 5 kLoC Pratt parser over pairs of programs (P, D(P)); no per-function contract implies erasure and neither verifier can take the parser (DESIGN §5)",
 "C04": "equivalence with TypeScript's emit is decided by compile_stmt lowering + VM property lookup on Gc objects; the only contractable fragment (EnumData) is too thin to carry the property (DESIGN §5)",
 "C05": "totality and polynomial work of lexer+parser+compiler incl. native stack depth; no verifier here bounds recursion depth or cost of that code; the builder-overflow instance is proved under C10 (DESIGN §5)",
 "C06": "bounded work per step() concerns natives re-entering vm.run and allocation sizes inside built-ins taking &mut Interpreter; no harness can construct an Interpreter and Kani does not prove cost/termination (DESIGN §5)",
 "C07": "transparency of suspension over all await positions x host schedules; save_state/from_saved_state use iterator adaptors over Gc/Guard data (outside Verus) and need a heap (outside Kani) (DESIGN §5)",
 "C08": "exactly-once order delivery / no lost wake-ups is a two-party protocol property over histories in Interpreter::step and natives; not expressible as per-call contracts within reach (DESIGN §5)",
 "C09": "exactly-once dependency-first module evaluation over all DAGs x supply schedules lives in Interpreter state and hash-map iteration order; only its path-canonicalisation clause is within reach and is carried by C18 (DESIGN §5)",
 "C11": "state hygiene across failed/abandoned runs at every crash point is a history property of Interpreter::{prepare,step} and VM unwinding; no constructible Interpreter (DESIGN §5)",
 "C12": "determinism and instance isolation are hyperproperties (two runs / two instances); function contracts relate one call's input to its output and cannot express them (DESIGN §5)",
 "C14": "absence of leaks across repeated runs is a whole-history property of guard push/pop pairing throughout VM and natives; same obstacles as C02 (DESIGN §5)",
 "C16": "JSON fidelity recurses over Gc<JsObject> graphs and serde_json trees with no separable scalar function to contract (DESIGN §5)",
 "C17": "Kani 0.68 rejects the c\"..\" literals used by the FFI entry points, cannot build a TsRunContext and gave no verdict on one primitive TsRunValue; memory safety over call sequences is not a per-call contract (DESIGN §5)",
 "C19": "agreement of entry points relates several whole executions of Interpreter; not expressible as, or reducible to, contracts within reach (DESIGN §5)",
}
PENDING = {
 "C15": "check under construction (DESIGN §4.5); not yet claimed",
 "C18": "check under construction (DESIGN §4.3); not yet claimed",
}

CHECKS = {
 'C10': dict(
   text="Proof, by Verus, of contracts on the real text of all 8 RegisterAllocator methods and 37 BytecodeBuilder / BytecodeChunk methods "
        "(extracted from /repo and annotated in place on every run): abstract view = set of handed-out registers, representation invariant, fresh/exact/no-truncation "
        "postconditions for u8 registers, u16 constant indices and u32 jump operands, explicit-error-only-at-the-limit clauses, full frames. By induction over the "
        "invariant the clauses hold for every call sequence of any length - exactly the 255th-register / 65536th-constant / 2^32 corner the tests never reach. "
        "No clause is assumed; Vec::retain / binary_search_by_key / hash-map std contracts are trusted wrappers, cross-checked by BOUNDED Kani harnesses where possible.",
   note="Trusted: Verus+Z3, vstd specs, opaque stand-ins for JsError/JsString, finite-map model of FxHashMap, std contracts of Vec::retain (R10) and Option::is_none_or. "
        "NOT carried by proof: that compile_* callers respect the allocator protocol (free only owned registers, no use after free); their size behaviour is covered only by the "
        "side battery (about 670 programs over 30 construct families, sizes 0..600 and 4096..70000, deep nesting in a child process), which is testing, not proof (DESIGN §4.1). "
        "Two known findings are recorded: the constant-pool limit is cumulative per chunk; nesting 1000+ levels deep aborts the process with a stack overflow.",
   technique="contract-based deductive verification (Verus requires/ensures + representation invariant on in-place annotated real code; Kani bounded harness for restore)",
   ref="§4.1"),
 'C13': dict(
   text="Proof for the mark-bit, handle and pooling layers; mark/sweep/collect only by a bounded native stand-in. Kani contracts on the real ChunkBitmask::{get,set,clear,default,iter_unmarked} and UnmarkedIter::next - including the unsafe "
        "get_unchecked accesses - over all 2^256 masks and all indices < 256: exact bit semantics, no out-of-bounds access, and iter_unmarked enumerates exactly the clear "
        "bits below len in ascending order (init + step contracts, induction on position argued in 3 lines); and on Gc::clone / Gc::drop / Guard::guard / Guard::drop for a handle "
        "or guard whose heap has been dropped (the box is really freed in the harness): no access to the freed box, clone returns the same handle, guard is a no-op; Guard::guard on a live heap roots "
        "only unpooled objects; Space::pool_object is idempotent; alloc_internal's reuse path returns the slot reset; Space::return_guard_to_pool / create_guard: recycled guard storage holds no roots, the pool never exceeds 16, a new guard is registered exactly once (bounded in the concrete pool size 0/15/16). Space::mark/sweep/collect, which Kani could not decide, are covered by a BOUNDED "
        "native stand-in only: every history of <= 8 operations over <= 2 guards and <= 3 objects against a reachability model, plus long random histories (never counted as proved). "
        "Loops unwound past their structural bound with the unwinding assertion on, so the harnesses are complete, not bounded.",
   note="Trusted: Kani/CBMC. NOT proved: guard reachability through Space::mark's traversal and sweep (bounded stand-in only) - Rc<RefCell>/NonNull code outside both verifiers "
        "(DESIGN §4.4). One known finding is recorded: stale handles dropped after slot reuse reset a rooted object. Callers are assumed to pass index % CHUNK_CAPACITY and len <= 256.",
   technique="contract-based deductive verification (Kani assume-pre/call/assert-post contracts inside the real crate, full input domain, loop-free or width-bounded)",
   ref="§4.4"),
 'C20': dict(
   text="Proof (span-recording, lexer-position and trace-assembly layers only): Verus contracts on the real BytecodeBuilder::emit and every other builder method - the position attached to an instruction is "
        "the span current at emission (lookup(source_map, index).start == current_span.start), emitting never disturbs earlier instructions' spans, no other method touches "
        "the map, finish moves it unchanged, get_source_location == lookup for every sorted map; Kani contracts on Lexer::advance for every Unicode scalar value "
        "(line/column/byte stepping, LF/LS/PS), make_span, Parser::span_from and Parser::error; bounded Kani harnesses for checkpoint/restore; a bounded native enumeration (all sources of length <= 5 over 15 symbols) "
        "for token spans and the parser's two re-scan entry points, which Kani could not decide; a Verus contract on the real BytecodeVM::build_stack_trace (result == running activation, then every suspended caller "
        "innermost first, each once, each located/named/filed by its own chunk); a side battery (about 750 fault-planted programs x layouts x call shapes) links the layers to reported traces (testing, not proof).",
   note="Trusted: Verus+Z3, Kani/CBMC, Option::is_none_or std contract. NOT carried: parser token->AST spans, compile_* calling set_span with the node being compiled, "
        "trace propagation across nested VMs, error formatting (DESIGN §4.2). build_stack_trace: iter().rev() rewritten to an index loop (rule R11, trusted), carried types opaque. checkpoint/restore and the token-span enumeration are BOUNDED stand-ins, never counted as proved. "
        "Two known findings are recorded: yield* leaves the delegating generator out of the trace; a lone CR is not counted as a line end.",
   technique="contract-based deductive verification (Verus postconditions + frame conditions on in-place annotated real code; Kani contracts for lexer stepping)",
   ref="§4.2"),
 'C15': dict(
   text="Proof (ToInt32/ToUint32 clause only): Kani contract on the real to_int32/to_uint32 over all 2^64 f64 bit patterns against an integer-only specification of "
        "'truncate then wrap modulo 2^32'; the link to the 13 operator sites, the compound-assignment table and parseInt's radix is a syntactic side obligation with a native replay battery (testing, not proof). "
        "The printing / parsing / formatting clauses are tested (not proved) by the same battery against exact decimal arithmetic over the quantifier's structured families.",
   note="Trusted: Kani/CBMC float semantics (bit-precise except f64 %, which the contracted code does not use). NOT carried by any contract: shortest round-trip printing, literal/Number() "
        "parsing, toFixed/toPrecision/toExponential/toString(radix) - float formatting is outside Verus and CBMC; these clauses are only TESTED (DESIGN §4.5).",
   technique="contract-based deductive verification (Kani function contract, loop-free harness over the full f64 domain)",
   ref="§4.5"),
 'C18': dict(
   text="Proof modulo trusted std-string contracts: Verus contracts on the real ModulePath::{resolve,normalize_path,parent,is_relative,is_bare} against a spec function "
        "(canon = fold over segments), plus lemmas: output has no '.', '..' or empty segments, no trailing slash, never escapes the root, idempotent, equal canon => equal path.",
   note="Trusted: wrappers R1-R6 for str::split/join/format!/starts_with/rfind/to_string and two string axioms (DESIGN §4.3); str viewed as Seq<char>.",
   technique="contract-based deductive verification (Verus spec function + lemmas on in-place annotated real code with trusted std-string wrappers)",
   ref="§4.3"),
}


def main():
    claimed = [p for p in sorted(PROPS) if p in CHECKS]
    m = {
        "version": 1,
        "setup_cmd": "python3 /verif/tools/setup.py",
        "hooks": {
            "guard": "kani",
            "enable": "no hooks in /repo: contracts and harnesses are spliced into a scratch copy of /repo's working tree on every run (cfg(kani) / cfg(test) exist only in the copy)",
            "baseline_off_cmd": "cd /repo && cargo test --workspace --no-fail-fast --offline",
            "source_commits": [],
            "add_only": True,
        },
        "engines": [
            {"name": "check.py", "path": "/verif/check.py", "serves_properties": claimed,
             "kind_free_text": "driver: extracts real functions (tools/rsx.py), splices contracts (contracts/*.spec), runs Verus; mounts kani/*.rs in a scratch copy of the crate and runs cargo kani; compares discharged obligations with baseline/obligations.json"},
        ],
        "checks": [],
        "not_applicable": [],
        "notes": "exit 0 = all baseline obligations regenerated and discharged; exit 1 + VIOLATION = a baseline obligation refuted (Kani counterexample replayed natively, or Verus clause failure + native oracle search); exit 2 = undecided (anchor lost / unsupported construct / resource limit), never a VIOLATION.",
    }
    for p in claimed:
        c = CHECKS[p]
        m["checks"].append({
            "property_id": p,
            "quick_cmd": "python3 /verif/check.py %s --tier quick" % p,
            "thorough_cmd": "python3 /verif/check.py %s --tier thorough" % p,
            "evidence_file": "/verif/evidence/%s.json" % p,
            "replay_cmd_template": "python3 /verif/check.py %s --replay {path}" % p,
            "engine": "check.py",
            "level_claimed": {"category": "proof", "text": c['text'], "design_ref": "DESIGN.md " + c['ref']},
            "level_note": c['note'],
            "technique": c['technique'],
        })
    na = dict(NA)
    for p, r in PENDING.items():
        if p not in claimed:
            na[p] = r
    for p in sorted(na):
        m["not_applicable"].append({"property_id": p, "reason": na[p]})
    with open(os.path.join(os.path.dirname(HERE), 'MANIFEST.json'), 'w') as f:
        json.dump(m, f, indent=1)
        f.write('\n')
    print('claimed:', claimed)


if __name__ == '__main__':
    main()
