"""Per-property configuration: which units decide which property."""

BITMASK_HARNESSES = {
    'bitmask_get': {'kind': 'complete', 'fn': 'ChunkBitmask::get'},
    'bitmask_set': {'kind': 'complete', 'fn': 'ChunkBitmask::set'},
    'bitmask_clear': {'kind': 'complete', 'fn': 'ChunkBitmask::clear'},
    'bitmask_default_is_clear': {'kind': 'complete', 'fn': 'ChunkBitmask::default'},
    'bitmask_iter_unmarked_init': {'kind': 'complete', 'fn': 'ChunkBitmask::iter_unmarked'},
    'bitmask_iter_next_step': {'kind': 'complete', 'fn': 'UnmarkedIter::next'},
    'bitmask_index_coupling': {'kind': 'complete', 'fn': 'CHUNK_CAPACITY'},
}

COMMON_TB = [
    'Verus 0.2026.09.13 (VIR/AIR encoding, bundled Z3) and vstd specifications of Vec/Option/Result/integers',
    'Kani 0.68.0 / CBMC 6.11.0 (MIR -> goto translation, SAT back end)',
    'rustc: the verified text is compiled by the same front end; Verus-unit text is the /repo source modulo the listed extraction edits',
]

BUILDER_VERUS = {'unit': 'builder', 'rlimit': 20}
BUILDER_ORACLE = {'unit': 'builder', 'mount': 'src/compiler/builder.rs', 'mod': 'verif_replay_builder', 'test': 'verif_oracle_builder'}

# obligations of the builder unit that carry C20 (span recording) rather than C10 (widths)
C20_BUILDER = (r'^builder/BytecodeBuilder::(emit|emit_jump|emit_jump_if_true|emit_jump_if_false|emit_jump_if_nullish|'
               r'emit_jump_if_not_nullish|emit_jump_to|emit_halt|set_span|clear_span|new|finish|patch_jump|patch_jump_to|'
               r'patch_try_targets|patch_iter_try_target|current_offset|emit_load_string)/|^builder/BytecodeChunk::|^builder/lemma::lemma_lookup|^(lexer_pos|bytecode_srcmap|lexer_spans|parser_spans|trace)/|^induction/lemma::lemma_walk')
C10_EXCLUDE = r'#(span_recorded|span_inherited|earlier_spans_kept)$|::(set_span|clear_span)/'

PROPS = {
    'C18': {
        'verus': [{'unit': 'modpath', 'rlimit': 30}],
        'oracles': [{'unit': 'modpath', 'mount': 'src/lib.rs', 'mod': 'verif_replay_modpath', 'test': 'verif_oracle_modpath'}],
        'bounded_native': [{'unit': 'modpath', 'mount': 'src/lib.rs', 'mod': 'verif_replay_modpath', 'test': 'verif_oracle_modpath', 'shared_with_oracle': True,
                            'bound': 'cross-check of the trusted wrapper contracts R1-R6 against the std calls for every string of length <= 6 over {/ . a e-acute} (5461 strings), plus the reference comparison of resolve() on 208k specifier x importer pairs',
                            'obligations': ['modpath/ModulePath::wrapper/R1_split_contract', 'modpath/ModulePath::wrapper/R2_join_contract',
                                            'modpath/ModulePath::wrapper/R4_starts_with_char_contract', 'modpath/ModulePath::wrapper/R4_starts_with_str_contract',
                                            'modpath/ModulePath::wrapper/R5_before_last_contract', 'modpath/ModulePath::wrapper/R3_R6_concat_contract']}],
        'trusted_base': COMMON_TB,
        'assumptions': [
            'std string calls are routed through trusted wrappers whose bodies are the std calls they replace (rules R1-R6, listed in extraction_edits): '
            'str::split(char) == split spec, [&str]::join == join spec, format! of &str/String == concatenation, str::starts_with == prefix test, '
            'rfind+get(..idx) == text before the last separator, to_string == identity',
            'str extensionality axiom: two &str with equal character sequences are equal (what `match s { "lit" => .. }` compares)',
            'str / String are viewed as Seq<char> (vstd)',
        ],
        'explanation': 'Verus contracts on the real text of ModulePath::{resolve,normalize_path,parent,is_relative,is_bare}: the result equals the spec function '
                       'norm(dir(importer) + "/" + specifier) (fold over segments with a stack), plus lemmas over the spec proved on every run: canonical shape '
                       '(no empty/./.. segments, no trailing slash), absoluteness preserved, idempotence, split/join inverse.',
        'not_carried': 'how Interpreter uses resolved paths (module cache keys, import requests): C09',
    },
    'C15': {
        'kani': [{'unit': 'value_toint32', 'mount': 'src/value.rs', 'mod': 'verif_kani_value_toint32',
                  'harnesses': {
                      'to_uint32_contract': {'kind': 'complete', 'fn': 'value::to_uint32'},
                      'to_int32_contract': {'kind': 'complete', 'fn': 'value::to_int32'},
                  }, 'replay_test': 'verif_replay_value_toint32'},
                 {'unit': 'number_round', 'mount': 'src/interpreter/builtins/number.rs', 'mod': 'verif_kani_number_round',
                  'harnesses': {
                      'round_digits_len1': {'kind': 'bounded', 'bound': 'digit vector of exactly 1 digit (all symbolic), symbolic exponent, every digit count k in -1..=N+1', 'fn': 'number::round_decimal_digits'},
                      'round_digits_len2': {'kind': 'bounded', 'bound': 'digit vector of exactly 2 digits (all symbolic), symbolic exponent, every digit count k in -1..=N+1', 'fn': 'number::round_decimal_digits'},
                      'round_digits_len3': {'kind': 'bounded', 'bound': 'digit vector of exactly 3 digits (all symbolic), symbolic exponent, every digit count k in -1..=N+1', 'fn': 'number::round_decimal_digits'},
                      'round_digits_len5': {'kind': 'bounded', 'bound': 'digit vector of exactly 5 digits (all symbolic), symbolic exponent, every digit count k in -1..=N+1', 'fn': 'number::round_decimal_digits'},
                      'round_digits_len8': {'kind': 'bounded', 'bound': 'digit vector of exactly 8 digits (all symbolic), symbolic exponent, every digit count k in -1..=N+1', 'fn': 'number::round_decimal_digits', 'tier': 'thorough'},
                  }, 'replay_test': 'verif_replay_number_round'}],
        'side': {'unit': 'side_c15', 'mount': 'src/lib.rs', 'mod': 'verif_side_c15', 'test': 'verif_side_c15', 'iters_quick': 40, 'iters_thorough': 2000},
        'trusted_base': COMMON_TB + ['CBMC floating-point semantics for f64 comparison, `as i64` and to_bits (bit-precise; f64 % is not used by the contracted code)'],
        'assumptions': [
            'proof for the ToInt32/ToUint32 clause only: decimal printing (number_to_string), literal / Number() parsing and toFixed/toPrecision/toExponential/toString(radix) are NOT verified by any contract (float formatting is outside Verus and CBMC); they are TESTED by the second half of the side battery against exact decimal arithmetic over the structured families of the quantifier (about 160 000 cases quick) - testing, never counted as proved',
            'the link from to_int32/to_uint32 to the 13 operator sites in execute_op, the three compiler operator tables (binary, compound assignment, enum initialisers) and parseInt\'s radix is a syntactic side obligation + native replay battery (testing, not a proof)',
        ],
        'explanation': 'Kani contract on the real value::to_uint32 / to_int32 for all 2^64 f64 bit patterns against an integer-only specification of '
                       '"truncate toward zero, then wrap modulo 2^32"; loop-free, hence complete.',
        'not_carried': 'shortest round-trip printing, literal/Number() parsing, toFixed/toPrecision/toExponential/toString(radix) (tested by the side battery only)',
    },
    'C10': {
        'verus': [BUILDER_VERUS],
        'kani': [{'unit': 'builder_restore', 'mount': 'src/compiler/builder.rs', 'mod': 'verif_kani_builder_restore',
                  'harnesses': {
                      'restore_f0_s0': {'kind': 'bounded', 'bound': 'free list of exactly 0 entries, saved stack of exactly 0', 'fn': 'RegisterAllocator::restore'},
                      'restore_f2_s0': {'kind': 'bounded', 'bound': 'free list of exactly 2 entries, saved stack of exactly 0', 'fn': 'RegisterAllocator::restore'},
                      'restore_f0_s1': {'kind': 'bounded', 'bound': 'free list of exactly 0 entries, saved stack of exactly 1', 'fn': 'RegisterAllocator::restore'},
                      'restore_f1_s1': {'kind': 'bounded', 'bound': 'free list of exactly 1 entries, saved stack of exactly 1', 'fn': 'RegisterAllocator::restore'},
                      'restore_f2_s1': {'kind': 'bounded', 'bound': 'free list of exactly 2 entries, saved stack of exactly 1', 'fn': 'RegisterAllocator::restore'},
                      'restore_f3_s2': {'kind': 'bounded', 'bound': 'free list of exactly 3 entries, saved stack of exactly 2', 'fn': 'RegisterAllocator::restore'},
                      'restore_f4_s1': {'kind': 'bounded', 'bound': 'free list of exactly 4 entries, saved stack of exactly 1', 'fn': 'RegisterAllocator::restore', 'tier': 'thorough'},
                      'restore_f6_s2': {'kind': 'bounded', 'bound': 'free list of exactly 6 entries, saved stack of exactly 2', 'fn': 'RegisterAllocator::restore', 'tier': 'thorough'},
                  }, 'replay_test': 'verif_replay_builder_restore'}],
        'oracles': [BUILDER_ORACLE],
        'side': {'unit': 'side_c10', 'mount': 'src/lib.rs', 'mod': 'verif_side_c10', 'test': 'verif_side_c10', 'iters_quick': 4, 'iters_thorough': 60},
        'obl_exclude': C10_EXCLUDE,
        'trusted_base': COMMON_TB,
        'assumptions': [
            'caller discipline in compile_*: callers free only registers they own and never use a register after freeing it (unverified)',
            'instruction count <= u32::MAX is NOT assumed: the jump-width clauses are stated conditionally (target <= u32::MAX ==> exact)',
            'RegisterAllocator::restore is proved in the Verus unit modulo the trusted std contract of Vec::retain (wrapper R10, cross-checked by BOUNDED Kani harnesses that run the real std code)',
            'opaque stand-ins for JsError and JsString (cheap_clone returns an equal string); FxHashMap modelled as a finite map whose key equality is content equality (trusted); f64::to_bits as an uninterpreted view; Option::is_none_or std contract assumed',
            'BytecodeBuilder::emit_load_number is under no contract (float logic + hash-map insertion: outside both verifiers)',
            'call sites in compile_* are covered by the side battery only (about 670 programs incl. super/new/method call shapes, spread families and deep-nesting cases run in a child process; testing, not proof); two known findings: the constant-pool limit is cumulative per chunk; deep nesting (1000+ levels) aborts the process with a stack overflow',
        ],
        'explanation': 'Verus contracts on the real text of RegisterAllocator and BytecodeBuilder (abstract view = set of handed-out registers; '
                       'representation invariant; exact constant indices; exact jump operands), by induction over the invariant for every call sequence.',
        'not_carried': 'proof that compile_* callers respect the allocator protocol (side battery only); emit_load_number',
    },
    'C20': {
        'verus': [BUILDER_VERUS, {'unit': 'induction', 'rlimit': 20}, {'unit': 'trace', 'rlimit': 20, 'safety_not_property': True}],
        'kani': [
            {'unit': 'lexer_pos', 'mount': 'src/lexer.rs', 'mod': 'verif_kani_lexer_pos',
             'harnesses': {
                 'lexer_advance_contract': {'kind': 'complete', 'fn': 'Lexer::advance'},
                 'lexer_make_span_contract': {'kind': 'complete', 'fn': 'Lexer::make_span'},
                 'lexer_checkpoint_restore_contract': {'kind': 'bounded', 'bound': 'source of 2 characters (each any Unicode scalar value)', 'fn': 'Lexer::checkpoint/restore'},
             }, 'replay_test': 'verif_replay_lexer_pos'},
            {'unit': 'parser_spans', 'mount': 'src/parser.rs', 'mod': 'verif_kani_parser_spans',
             'harnesses': {
                 'parser_span_from_contract': {'kind': 'complete', 'fn': 'Parser::span_from'},
                 'parser_error_position_contract': {'kind': 'complete', 'fn': 'Parser::error'},
             }, 'replay_test': 'verif_replay_parser_spans'},
            {'unit': 'bytecode_srcmap', 'mount': 'src/compiler/bytecode.rs', 'mod': 'verif_kani_bytecode_srcmap',
             'harnesses': {
                 'srcmap_lookup_len0': {'kind': 'bounded', 'bound': 'source map of exactly 0 entries (symbolic offsets/spans/query)', 'fn': 'BytecodeChunk::get_source_location'},
                 'srcmap_lookup_len1': {'kind': 'bounded', 'bound': 'source map of exactly 1 entries (symbolic offsets/spans/query)', 'fn': 'BytecodeChunk::get_source_location'},
                 'srcmap_lookup_len2': {'kind': 'bounded', 'bound': 'source map of exactly 2 entries (symbolic offsets/spans/query)', 'fn': 'BytecodeChunk::get_source_location'},
                 'srcmap_lookup_len3': {'kind': 'bounded', 'bound': 'source map of exactly 3 entries (symbolic offsets/spans/query)', 'fn': 'BytecodeChunk::get_source_location'},
                 'srcmap_lookup_len5': {'kind': 'bounded', 'bound': 'source map of exactly 5 entries (symbolic offsets/spans/query)', 'fn': 'BytecodeChunk::get_source_location'},
                 'srcmap_lookup_len8': {'kind': 'bounded', 'bound': 'source map of exactly 8 entries (symbolic offsets/spans/query)', 'fn': 'BytecodeChunk::get_source_location', 'tier': 'thorough'},
             }, 'replay_test': 'verif_replay_bytecode_srcmap'},
        ],
        'oracles': [BUILDER_ORACLE],
        'side': {'unit': 'side_c20', 'mount': 'src/lib.rs', 'mod': 'verif_side_c20', 'test': 'verif_side_c20', 'iters_quick': 0, 'iters_thorough': 1},
        'bounded_native': [{'unit': 'lexer_spans', 'mount': 'src/lexer.rs', 'mod': 'verif_replay_lexer_spans', 'test': 'verif_oracle_lexer_spans',
                            'bound': 'every source string of length <= 5 over a 15-symbol alphabet (a 1 space LF CR ` $ { } / " \\ e-acute U+2028 U+1F600) + 70 structured template/regexp programs',
                            'bound_thorough': 'every source string of length <= 6 over the same alphabet + the structured programs',
                            'env': {'VERIF_LEXER_BOUND': '5'}, 'env_thorough': {'VERIF_LEXER_BOUND': '6'},
                            'obligations': ['lexer_spans/Lexer::next_token/ensures#line_column_consistent_with_source',
                                            'lexer_spans/Lexer::rescan_template_continuation/ensures#line_column_consistent_with_source',
                                            'lexer_spans/Lexer::rescan_as_regexp/ensures#line_column_consistent_with_source',
                                            'lexer_spans/Lexer::restore/ensures#token_stream_unchanged_by_lookahead',
                                            'lexer_spans/Lexer::token_span/ensures#byte_range_inside_source',
                                            'lexer_spans/Lexer::token_span/ensures#starts_never_move_backwards']}],
        'obl_filter': C20_BUILDER,
        'trusted_base': COMMON_TB,
        'assumptions': [
            'span-recording, lexer-position and trace-assembly layers only: parser token->AST spans, compile_* calling set_span with the node being compiled, the propagation of a trace across nested VMs and error formatting are NOT verified; they are linked to the layers only by the side battery (about 750 fault-planted programs x layouts x call shapes; testing, not proof)',
            'build_stack_trace: requires every chunk source map sorted (established by BytecodeBuilder::finish / BytecodeChunk::new, unit builder); that no other code edits the pub field source_map is unchecked',
            'rule R11: for x in E.iter().rev() rewritten to a descending index loop over the same Vec (trusted: slice::iter().rev() visits the elements in descending index order, each once)',
            'trace unit stand-ins: JsString::to_string yields the uninterpreted text of the string; JsValue, JsObject, CallFrame, TryHandler, Guarded, PendingCompletion, Gc<T>, Guard<T> opaque',
            'get_source_location: std contract of binary_search_by_key trusted (wrapper R9), cross-checked by BOUNDED Kani harnesses',
            'fewer than 2^32 lines/columns, byte offsets below 2^62 (assumed in the advance harness)',
            'line = 1 + terminators consumed, column = 1 + characters since the last terminator: induction over the advance step contract is a machine-checked pure-spec Verus lemma; the transcription of the Kani postcondition is the unchecked link',
            'Option::is_none_or: assumed std contract (assume_specification)',
        ],
        'explanation': 'Verus: BytecodeBuilder::emit records the span current at emission (lookup(source_map, index).start == current_span.start), '
                       'never disturbs the spans of earlier instructions, and no other builder method touches the map; Kani: lexer line/column stepping '
                       'for every Unicode scalar value, make_span, checkpoint/restore, get_source_location == lookup; Verus: BytecodeVM::build_stack_trace returns '
                       'exactly the running activation followed by the suspended callers innermost first, each located/named/filed by its own chunk.',
        'not_carried': 'parser spans, set_span discipline in compile_*, trace propagation across nested VMs, error formatting',
    },
    'C13': {
        'verus': [{'unit': 'induction', 'rlimit': 20}],
        'obl_exclude': r'^induction/lemma::lemma_walk',
        'kani': [{'unit': 'gc_bitmask', 'mount': 'src/gc.rs', 'mod': 'verif_kani_gc_bitmask',
                  'harnesses': BITMASK_HARNESSES, 'replay_test': 'verif_replay_gc_bitmask'},
                 {'unit': 'gc_handles', 'mount': 'src/gc.rs', 'mod': 'verif_kani_gc_handles',
                  'harnesses': {
                      'handle_clone_after_heap_drop': {'kind': 'complete', 'fn': 'Gc::clone / Gc::drop (heap already dropped)'},
                      'guard_ops_after_heap_drop': {'kind': 'complete', 'fn': 'Guard::guard / Guard::drop (heap already dropped)'},
                      'guard_live_heap_respects_pooled': {'kind': 'complete', 'fn': 'Guard::guard (live heap, symbolic pooled flag)'},
                      'space_pool_object_once': {'kind': 'complete', 'fn': 'Space::pool_object'},
                      'space_alloc_reuses_pooled_slot_reset': {'kind': 'complete', 'fn': 'Space::alloc_internal (reuse path)'},
                      'space_create_guard_fresh': {'kind': 'complete', 'fn': 'Space::create_guard (empty guard pool)'},
                      'guard_pool_k0_n2': {'kind': 'bounded', 'bound': 'guard pool of exactly 0 storages, returned storage of exactly 2 (dangling) roots', 'fn': 'Space::return_guard_to_pool / Space::create_guard'},
                      'guard_pool_k15_n1': {'kind': 'bounded', 'bound': 'guard pool of exactly 15 storages, returned storage of exactly 1 (dangling) root', 'fn': 'Space::return_guard_to_pool / Space::create_guard'},
                      'guard_pool_k16_n1': {'kind': 'bounded', 'bound': 'guard pool of exactly 16 storages (full), returned storage of exactly 1 (dangling) root', 'fn': 'Space::return_guard_to_pool / Space::create_guard'},
                      'guard_unguard_roots0': {'kind': 'bounded', 'bound': 'root list of exactly 0 entries', 'fn': 'Guard::unguard / len / clear'},
                      'guard_unguard_roots2': {'kind': 'bounded', 'bound': 'root list of exactly 2 entries drawn from 3 objects', 'fn': 'Guard::unguard / len / clear'},
                      'guard_unguard_roots1': {'kind': 'bounded', 'bound': 'root list of exactly 1 entry', 'fn': 'Guard::unguard / len / clear', 'tier': 'thorough'},
                      'guard_unguard_roots3': {'kind': 'bounded', 'bound': 'root list of exactly 3 entries drawn from 3 objects', 'fn': 'Guard::unguard / len / clear', 'tier': 'thorough'},
                  }, 'replay_test': 'verif_replay_gc_handles'}],
        'bounded_native': [{'unit': 'gc_histories', 'mount': 'src/gc.rs', 'mod': 'verif_replay_gc_histories', 'test': 'verif_oracle_gc_histories',
                            'bound': 'every history of <= 8 operations (new/drop guard, alloc, link, unlink, guard, unguard, collect) over <= 2 guards and <= 3 objects with explicit collection, every history of <= 7 operations over <= 3 guards, every history of <= 7 operations with a collection on every allocation, 60 random 700-operation histories (<= 40 guards, <= 600 objects, thresholds 0,1,2,3,5,7,100)',
                            'bound_thorough': 'histories of <= 9 / <= 8 operations, 400 random histories',
                            'env': {'VERIF_GC_DEPTH': '8', 'VERIF_GC_RANDOM': '60'}, 'env_thorough': {'VERIF_GC_DEPTH': '9', 'VERIF_GC_RANDOM': '400'},
                            'obligations': ['gc_histories/Heap::collect/ensures#exactly_the_reachable_objects_are_counted_live',
                                            'gc_histories/Heap::collect/ensures#reachable_object_keeps_contents',
                                            'gc_histories/Heap::collect/ensures#reachable_object_keeps_links',
                                            'gc_histories/Heap::collect/ensures#unreachable_object_is_reset',
                                            'gc_histories/Heap::create_guard/ensures#new_guard_has_no_roots',
                                            'gc_histories/Guard::alloc/ensures#new_object_has_default_contents',
                                            'gc_histories/Guard::unguard/ensures#true_iff_was_guarded',
                                            'gc_histories/Gc::drop/ensures#stale_handles_do_not_affect_the_slots_new_tenant']}],
        'trusted_base': COMMON_TB,
        'assumptions': [
            'proof covers the mark-bit layer, the dropped-heap handle layer, Guard::guard on a live heap, pool_object and the reuse path of alloc_internal; Space::mark / sweep / collect, Gc::clone/drop on a live heap and the fresh-chunk path of alloc_internal are NOT proved (bounded native stand-in gc_histories only)',
            'callers pass index_in_chunk = index % CHUNK_CAPACITY (coupling harness) and len = chunk.len() <= CHUNK_CAPACITY (Vec::with_capacity discipline in alloc_internal: unverified)',
            'exactness of the whole iter_unmarked enumeration: induction over the init + step contracts is machine-checked as a pure-spec Verus lemma (verus/induction_pre.rs); the transcription of the Kani postconditions into its hypothesis is the unchecked link',
        ],
        'explanation': 'Kani contracts (assume-pre / call real fn / assert-post) on ChunkBitmask::{get,set,clear,default,iter_unmarked} '
                       'and UnmarkedIter::next over all 2^256 masks and all indices (loop in next() unwound past its structural bound with the unwinding assertion on), '
                       'on Gc::clone/drop and Guard::guard/drop for a dropped heap (box really freed), Guard::guard on a live heap, Space::pool_object and the reuse path of '
                       'alloc_internal; a pure-spec Verus lemma closes the induction over the iterator step contract.',
        'not_carried': 'proof of guard reachability through mark traversal and sweep (bounded native stand-in only); stale-handle reference counts after slot reuse (known finding)',
    },
}
