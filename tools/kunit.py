"""kunit - run Kani harnesses that live in /verif/kani/<unit>.rs *inside* a scratch copy of the real crate."""
import os
import re
import subprocess
import time

VERIF = os.path.dirname(os.path.dirname(os.path.abspath(__file__)))


def mount_line(unit, modname):
    return ('\n#[cfg(kani)]\n#[path = "%s/kani/%s.rs"]\nmod %s;\n' % (VERIF, unit, modname))


def native_mount_line(unit, modname):
    return ('\n#[cfg(all(test, not(kani)))]\n#[path = "%s/kani/%s.rs"]\nmod %s;\n' % (VERIF, unit, modname))


CHECK_RE = re.compile(r'^Check (\d+): ([^\n]+?)\s*\n\s*- Status: (\w+)\s*\n\s*- Description: (.*)\n(?:\s*- Location: (.*)\n)?',
                      re.M)


def parse_kani_output(text):
    """-> {harness_short_name: {status, checks:[{name,status,desc,loc}], time_s, raw_start, raw_end}}"""
    out = {}
    parts = re.split(r'^Checking harness (\S+?)\.\.\.\s*$', text, flags=re.M)
    # parts[0] preamble, then name, body, name, body...
    for k in range(1, len(parts), 2):
        full = parts[k]
        body = parts[k + 1]
        short = full.split('::')[-1]
        checks = []
        for m in CHECK_RE.finditer(body):
            desc = m.group(4).strip()
            desc = desc.strip('"')
            checks.append({'id': m.group(2), 'status': m.group(3), 'desc': desc, 'loc': (m.group(5) or '').strip()})
        st = None
        m = re.search(r'^VERIFICATION:- (\w+)', body, re.M)
        if m:
            st = m.group(1)
        tm = re.search(r'^Verification Time: ([0-9.]+)s', body, re.M)
        out[short] = {'full': full, 'status': st, 'checks': checks, 'time_s': float(tm.group(1)) if tm else None,
                      'body_tail': body[-3000:]}
    return out


def run_kani(workrepo, harnesses, timeout=1800, extra=None, log_path=None, playback=False):
    cmd = ['cargo', 'kani']
    for h in harnesses:
        cmd += ['--harness', h]
    if playback:
        cmd += ['-Z', 'concrete-playback', '--concrete-playback=print']
    cmd += extra or []
    env = dict(os.environ)
    env['CARGO_NET_OFFLINE'] = 'true'
    env.pop('RUSTFLAGS', None)
    t0 = time.time()
    import sys
    sys.path.insert(0, os.path.join(VERIF, 'tools'))
    import common
    code, text = common.run_group(cmd, cwd=workrepo, env=env, timeout=timeout)
    status = 'ran' if code is not None else 'timeout'
    wall = time.time() - t0
    if log_path:
        with open(log_path, 'w') as f:
            f.write(text)
    res = parse_kani_output(text)
    compile_error = None
    if status == 'ran' and not res:
        m = re.search(r'^(error(\[E\d+\])?: .*)$', text, re.M)
        compile_error = m.group(1) if m else 'no harness output'
    return {'status': status, 'exit': code, 'cmd': 'CARGO_NET_OFFLINE=true ' + ' '.join(cmd), 'wall_s': wall,
            'harnesses': res, 'compile_error': compile_error, 'text': text}


def playback_values(text, harness):
    """Extract the concrete byte vectors Kani printed for `harness` (concrete playback)."""
    m = re.search(r'fn kani_concrete_playback_%s_\w+\(\)\s*\{(.*?)\n\}' % re.escape(harness), text, re.S)
    if not m:
        return None
    vals = []
    for vm in re.finditer(r'^\s*(?://\s*(.*)\n\s*)?vec!\[([0-9, ]*)\],?\s*$', m.group(1), re.M):
        vals.append([int(x) for x in vm.group(2).replace(' ', '').split(',') if x])
    return vals
