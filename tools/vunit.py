"""vunit - build one Verus unit from the real source + a contract file, run Verus, map results.

Contract file format (contracts/<unit>.spec), line oriented:

  @unit NAME
  @preamble verus/NAME_pre.rs [more.rs ..] hand-written spec fns / stand-in types / lemmas (first file opens verus!{)
  @source src/compiler/builder.rs        switches the current source file
  @item struct|enum|type|const NAME      copy the item verbatim (D1/D2 applied)
  @impl TYPE [TRAIT]                     open an impl block; following @fn belong to it
  @fn NAME [-> RET]                      copy the fn verbatim, name its return value RET
  @external                              (after @fn) emit as #[verifier::external_body]: contract assumed
  @requires / @ensures / @recommends     clause lists:  "[label] expr" (continuation lines allowed)
  @body_start                            raw text inserted right after the body's opening brace
  @loop N [iter=NAME]                    loop N (by ordinal) gets the following @invariant/@decreases
  @invariant / @decreases
  @before_loop N                         raw text inserted before loop N
  @closure N                             next line: the annotated header  |p: T, ..| -> (r: T)
  @endimpl
  @raw                                   raw text emitted between items (proof fns that need items above)
  @rule R1..R6                           enable a rewrite rule for the following fns (C18 unit)

Everything after '#' at the start of a line is a comment.
"""
import json
import os
import re
import subprocess
import time

from rsx import (Edit, RsxError, Source, apply_edits, parse_fn, strip_spans, tok_texts, tokenize,
                 match_close)

VERIF = os.path.dirname(os.path.dirname(os.path.abspath(__file__)))


class Clause:
    def __init__(self, label, text):
        self.label, self.text = label, text


class FnSpec:
    def __init__(self, name, ret):
        self.name, self.ret = name, ret
        self.external = False
        self.requires, self.ensures, self.recommends = [], [], []
        self.body_start = ''
        self.loops = {}          # n -> {'iter':..,'invariant':[..],'decreases':[..]}
        self.before_loop = {}    # n -> text
        self.loop_body_start = {}
        self.loop_body_end = {}
        self.after_loop = {}
        self.closure_ensures = {}  # n -> explicit ensures text (default: ret == (body))
        self.after_semi = {}       # n -> text inserted after the n-th top-level `;` of the body
        self.closures = {}       # n -> header text
        self.rules = set()
        self.novac = False       # skip assert(false) vacuity probe (external fns)


class Entry:
    def __init__(self, kind, **kw):
        self.kind = kind
        self.__dict__.update(kw)


def parse_spec(path):
    unit = {'name': None, 'preamble': None, 'entries': []}
    cur_source = None
    cur_impl = None
    cur_fn = None
    section = None      # ('clauses', list) | ('raw', setter) | ('closure', n)
    rules = set()
    raw_buf = None

    def flush_raw():
        nonlocal raw_buf
        if raw_buf is not None:
            raw_buf['target'](''.join(raw_buf['lines']))
            raw_buf = None

    with open(path) as f:
        lines = f.readlines()
    for ln, line in enumerate(lines, 1):
        if line.startswith('#'):
            continue
        if line.startswith('@'):
            flush_raw()
            parts = line.split()
            d = parts[0]
            section = None
            if d == '@unit':
                unit['name'] = parts[1]
            elif d == '@preamble':
                unit['preamble'] = parts[1:]     # first file opens `verus! {`; further files are appended inside it
            elif d == '@source':
                cur_source = parts[1]
            elif d == '@item':
                unit['entries'].append(Entry('item', source=cur_source, ikind=parts[1], name=parts[2],
                                             keep_derive=parts[3:] ))
            elif d == '@impl':
                cur_impl = Entry('impl', source=cur_source, type=parts[1],
                                 trait=parts[2] if len(parts) > 2 else None, fns=[])
                unit['entries'].append(cur_impl)
            elif d == '@endimpl':
                cur_impl, cur_fn = None, None
            elif d == '@fn':
                ret = parts[3] if len(parts) > 3 and parts[2] == '->' else None
                cur_fn = FnSpec(parts[1], ret)
                cur_fn.rules = set(rules)
                if cur_impl is None:
                    unit['entries'].append(Entry('fn', source=cur_source, fn=cur_fn))
                else:
                    cur_impl.fns.append(cur_fn)
            elif d == '@external':
                cur_fn.external = True
            elif d in ('@requires', '@ensures', '@recommends'):
                section = ('clauses', getattr(cur_fn, d[1:]))
            elif d == '@body_start':
                def tgt(t, fn=cur_fn):
                    fn.body_start = t
                raw_buf = {'target': tgt, 'lines': []}
                section = ('raw',)
            elif d == '@loop':
                n = int(parts[1])
                it = None
                for p in parts[2:]:
                    if p.startswith('iter='):
                        it = p[5:]
                cur_loop = cur_fn.loops.setdefault(n, {'iter': it, 'invariant': [], 'decreases': []})
            elif d == '@invariant':
                section = ('clauses', cur_loop['invariant'])
            elif d == '@decreases':
                section = ('clauses', cur_loop['decreases'])
            elif d in ('@before_loop', '@loop_body_start', '@loop_body_end', '@after_loop', '@after_semi'):
                n = int(parts[1])

                def tgt2(t, fn=cur_fn, n=n, attr=d[1:]):
                    getattr(fn, attr)[n] = t
                raw_buf = {'target': tgt2, 'lines': []}
                section = ('raw',)
            elif d == '@closure':
                section = ('closure', int(parts[1]))
            elif d == '@raw':
                e = Entry('raw', text='')
                unit['entries'].append(e)

                def tgt3(t, e=e):
                    e.text = t
                raw_buf = {'target': tgt3, 'lines': []}
                section = ('raw',)
            elif d == '@rule':
                rules = set(parts[1:])
            else:
                raise RsxError('%s:%d: unknown directive %s' % (path, ln, d))
            continue
        if section is None:
            if line.strip():
                raise RsxError('%s:%d: text outside a section' % (path, ln))
            continue
        if section[0] == 'raw':
            raw_buf['lines'].append(line)
        elif section[0] == 'closure':
            if line.strip().startswith('ensures '):
                cur_fn.closure_ensures[section[1]] = line.strip()[len('ensures '):]
            elif line.strip():
                cur_fn.closures[section[1]] = line.strip()
        else:
            m = re.match(r'\s*\[([A-Za-z0-9_]+)\]\s*(.*)$', line.rstrip('\n'))
            if m:
                section[1].append(Clause(m.group(1), m.group(2)))
            elif line.strip():
                if not section[1]:
                    raise RsxError('%s:%d: clause without [label]' % (path, ln))
                section[1][-1].text += ' ' + line.strip()
    flush_raw()
    return unit


# ------------------------------------------------------------------------------------------------
# generation

KEEP_DERIVES = {'Clone', 'Copy', 'PartialEq', 'Eq'}


def _drop_attrs_and_vis(src, item, edits, keep_derive, stats):
    toks = src.toks
    for a, b in item.attrs:
        txt = src.text_of(a, b)
        m = re.match(r'#\s*\[\s*derive\s*\((.*)\)\s*\]$', txt, re.S)
        if m and keep_derive:
            kept = [d.strip() for d in m.group(1).split(',') if d.strip() in keep_derive]
            if kept:
                edits.append(Edit(toks[a].start, toks[b].end, '#[derive(%s)]' % ', '.join(kept), 'D1'))
                stats['D1'] += 1
                continue
        edits.append(Edit(toks[a].start, toks[b].end, '', 'D1'))
        stats['D1'] += 1
    # visibility qualifiers anywhere in the item, nested attributes inside the item
    i = item.kw if item.vis is None else item.vis[0]
    while i <= item.last:
        t = toks[i]
        if t.kind == 'ident' and t.text == 'pub':
            j = i
            if toks[i + 1].text == '(':
                j = match_close(toks, i + 1)
            edits.append(Edit(t.start, toks[j].end, '', 'D2'))
            stats['D2'] += 1
            i = j + 1
            continue
        if t.text == '#' and toks[i + 1].text == '[' and i > item.kw:
            j = match_close(toks, i + 1)
            edits.append(Edit(t.start, toks[j].end, '', 'D1'))
            stats['D1'] += 1
            i = j + 1
            continue
        i += 1


def _clauses(kind, clauses, obl_prefix, indent='        '):
    if not clauses:
        return ''
    out = ['\n%s%s\n' % (indent[:-4], kind)]
    for c in clauses:
        out.append('%s    %s, // OBL %s#%s\n' % (indent[:-4], c.text, obl_prefix + '/' + kind, c.label))
    return ''.join(out)


class Generated:
    def __init__(self):
        self.text = ''
        self.functions = []        # dicts: name, qual, external, line_lo, line_hi, sha, source, src_line
        self.line_src = {}         # generated line -> (source path, source line)
        self.obl_lines = {}        # generated line -> obligation name
        self.obligations = []      # all named obligations (incl. per-fn safety)
        self.assumed = []          # obligations assumed (external fns)
        self.contract_text = {}    # qual -> {'requires': [text], 'ensures': {label: text}}
        self.edit_stats = {}
        self.inserted_check = True
        self.items = []


def generate(unit, repo, vacuity_fn=None):
    """Build the Verus file text for `unit` from the working tree under `repo`.
    vacuity_fn: qualified fn name that gets `assert(false);` at body start (vacuity probe)."""
    g = Generated()
    g.unit_name = unit['name']
    stats = {k: 0 for k in ('D1', 'D2', 'A1', 'A2', 'A3', 'A4', 'R1', 'R2', 'R3', 'R4', 'R5', 'R6', 'R7', 'R8', 'R9', 'R10', 'R11', 'X1')}
    sources = {}

    def src_of(rel):
        if rel not in sources:
            sources[rel] = Source(os.path.join(repo, rel))
        return sources[rel]

    chunks = []      # (text, origin_pieces|None, source_rel)
    preamble_text = ''
    for pf in unit['preamble']:
        with open(os.path.join(VERIF, pf)) as f:
            preamble_text += f.read().rstrip('\n') + '\n\n'
    chunks.append((preamble_text, None, None, None))

    def emit_item(src, rel, item, keep_derive):
        edits = []
        _drop_attrs_and_vis(src, item, edits, keep_derive, stats)
        lo = src.toks[item.first].start
        hi = src.toks[item.last].end
        out, spans, origin = apply_edits(src.text, lo, hi, edits)
        _selfcheck(src, item, out, spans, edits)
        chunks.append((out + '\n\n', origin, rel, None))
        g.items.append({'item': '%s %s' % (item.kind, item.name), 'source': rel,
                        'src_line': src.line_of(src.toks[item.kw].start), 'sha256_16': src.sha(item)})

    def emit_fn(src, rel, item, fs, qual):
        from rules import apply_rules
        fn = parse_fn(src.toks, item)
        toks = src.toks
        edits = []
        # $L<n> / $F<n> in contract text: the n-th `let`-bound local / `for`-loop variable of the CURRENT body, so that
        # a harmless rename of a local does not lose the proof hints that mention it
        lets, fors = [], []
        k = fn.body_open + 1
        while k < fn.body_close - 1:
            if toks[k].kind == 'ident' and toks[k].text == 'let' and toks[k - 1].text not in ('if', 'while'):
                j = k + 1
                if toks[j].text == 'mut':
                    j += 1
                if toks[j].kind == 'ident' and toks[j + 1].text in ('=', ':', ';'):
                    lets.append(toks[j].text)
            elif toks[k].kind == 'ident' and toks[k].text == 'for' and toks[k + 1].kind == 'ident' and toks[k + 2].text == 'in':
                fors.append(toks[k + 1].text)
            k += 1

        def subst(text):
            def rep(m):
                lst = lets if m.group(1) == 'L' else fors
                n = int(m.group(2))
                if n >= len(lst):
                    raise RsxError('anchor lost: %s has no %s local #%d' % (qual, 'let' if m.group(1) == 'L' else 'for', n))
                return lst[n]
            return re.sub(r'\$([LF])(\d+)', rep, text)

        import copy
        fs = copy.copy(fs)
        fs.requires = [Clause(c.label, subst(c.text)) for c in fs.requires]
        fs.ensures = [Clause(c.label, subst(c.text)) for c in fs.ensures]
        fs.body_start = subst(fs.body_start)
        fs.loops = {n: {'iter': lp['iter'], 'invariant': [Clause(c.label, subst(c.text)) for c in lp['invariant']],
                        'decreases': [Clause(c.label, subst(c.text)) for c in lp['decreases']]} for n, lp in fs.loops.items()}
        for attr in ('before_loop', 'loop_body_start', 'loop_body_end', 'after_loop', 'after_semi'):
            setattr(fs, attr, {n: subst(t) for n, t in getattr(fs, attr).items()})
        fs.closure_ensures = {n: subst(t) for n, t in fs.closure_ensures.items()}
        _drop_attrs_and_vis(src, item, edits, None, stats)
        pre = '%s/%s' % (unit['name'], qual)
        if fs.external:
            edits.append(Edit(toks[item.kw].start if item.vis is None else toks[item.vis[0]].start,
                              toks[item.kw].start if item.vis is None else toks[item.vis[0]].start,
                              '#[verifier::external_body]\n    ', 'X1', -1))
            stats['X1'] += 1
        # A1: name the return value, add requires/ensures before the body brace
        if fs.ret:
            if fn.arrow < 0:
                raise RsxError('%s: contract names a return value but the fn returns ()' % qual)
            edits.append(Edit(toks[fn.ret_first].start, toks[fn.ret_first].start, '(%s: ' % fs.ret, 'A1'))
            edits.append(Edit(toks[fn.ret_last].end, toks[fn.ret_last].end, ')', 'A1'))
        contract = (_clauses('requires', fs.requires, pre) + _clauses('recommends', fs.recommends, pre)
                    + _clauses('ensures', fs.ensures, pre))
        if contract:
            edits.append(Edit(toks[fn.body_open].start, toks[fn.body_open].start, contract + '    ', 'A1'))
            stats['A1'] += 1
        bs = fs.body_start
        if vacuity_fn == qual or (vacuity_fn == '*' and not fs.external):
            bs = '\n        assert(false); // VACUITY-PROBE\n' + bs
        if bs:
            edits.append(Edit(toks[fn.body_open].end, toks[fn.body_open].end, '\n' + bs, 'A4'))
            stats['A4'] += 1
        for n, lp in fs.loops.items():
            if n >= len(fn.loops):
                raise RsxError('anchor lost: %s has no loop #%d' % (qual, n))
            L = fn.loops[n]
            if lp['iter']:
                # for PAT in [iter:] EXPR
                k = L.kw + 1
                while toks[k].text != 'in':
                    k += 1
                edits.append(Edit(toks[k].end, toks[k].end, ' %s:' % lp['iter'], 'A2'))
            txt = (_clauses('invariant', lp['invariant'], '%s/loop%d' % (pre, n), '            ')
                   + _clauses('decreases', lp['decreases'], '%s/loop%d' % (pre, n), '            '))
            edits.append(Edit(toks[L.body_open].start, toks[L.body_open].start, txt + '        ', 'A2'))
            stats['A2'] += 1
        for attr in ('before_loop', 'loop_body_start', 'loop_body_end', 'after_loop'):
            for n, txt in getattr(fs, attr).items():
                if n >= len(fn.loops):
                    raise RsxError('anchor lost: %s has no loop #%d' % (qual, n))
                L = fn.loops[n]
                if attr == 'before_loop':
                    edits.append(Edit(toks[L.kw].start, toks[L.kw].start, txt + '        ', 'A4'))
                elif attr == 'loop_body_start':
                    edits.append(Edit(toks[L.body_open].end, toks[L.body_open].end, '\n' + txt, 'A4', 1))
                elif attr == 'loop_body_end':
                    edits.append(Edit(toks[L.body_close].start, toks[L.body_close].start, '\n' + txt + '        ', 'A4'))
                else:
                    edits.append(Edit(toks[L.body_close].end, toks[L.body_close].end, '\n' + txt, 'A4'))
                stats['A4'] += 1
        if fs.after_semi:
            semis = []
            k = fn.body_open + 1
            while k < fn.body_close:
                if toks[k].text in ('(', '[', '{'):
                    k = match_close(toks, k)
                elif toks[k].text == ';':
                    semis.append(k)
                k += 1
            for n, txt in fs.after_semi.items():
                if n >= len(semis):
                    raise RsxError('anchor lost: %s has no top-level statement #%d' % (qual, n))
                edits.append(Edit(toks[semis[n]].end, toks[semis[n]].end, '\n' + txt, 'A4'))
                stats['A4'] += 1
        for n, hdr in fs.closures.items():
            if n >= len(fn.closures):
                raise RsxError('anchor lost: %s has no closure #%d' % (qual, n))
            C = fn.closures[n]
            if C.block:
                raise RsxError('unsupported construct: %s closure #%d has a block body' % (qual, n))
            m = re.match(r'\|(.*)\|\s*->\s*\(\s*(\w+)\s*:\s*(.*)\)\s*$', hdr)
            if not m:
                raise RsxError('bad closure header in spec for %s' % qual)
            ptypes = [p.strip() for p in m.group(1).split(',') if p.strip()]
            if len(ptypes) != len(C.params):
                raise RsxError('anchor lost: %s closure #%d arity changed' % (qual, n))
            # parameters keep their own pattern text; the spec supplies only the types
            for (pa, pb), pt in zip(C.params, ptypes):
                if pa != pb or toks[pa].kind != 'ident':
                    raise RsxError('unsupported construct: %s closure #%d has a pattern parameter' % (qual, n))
                ty = pt.split(':', 1)[1].strip() if ':' in pt else pt
                edits.append(Edit(toks[pb].end, toks[pb].end, ': ' + ty, 'A3'))
            body = src.text_of(C.body_first, C.body_last)
            ens = fs.closure_ensures.get(n) or '%s == (%s)' % (m.group(2), body)
            edits.append(Edit(toks[C.bar2].end, toks[C.bar2].end,
                              ' -> (%s: %s) ensures %s {' % (m.group(2), m.group(3), ens), 'A3'))
            edits.append(Edit(toks[C.body_last].end, toks[C.body_last].end, ' }', 'A3'))
            stats['A3'] += 1
        if fs.rules:
            apply_rules(src, fn, fs.rules, edits, stats)
        lo = toks[item.first].start
        hi = toks[item.last].end
        out, spans, origin = apply_edits(src.text, lo, hi, edits)
        _selfcheck(src, item, out, spans, edits)
        chunks.append(('    ' + out + '\n\n', [(a + 4, b + 4, s) for a, b, s in origin], rel,
                       {'name': fs.name, 'qual': qual, 'external': fs.external, 'source': rel,
                        'src_line': src.line_of(toks[item.kw].start), 'sha256_16': src.sha(item),
                        'spec': fs}))

    for e in unit['entries']:
        if e.kind == 'raw':
            chunks.append((e.text + '\n', None, None, None))
        elif e.kind == 'item':
            src = src_of(e.source)
            cands = src.find(e.ikind, e.name)
            emit_item(src, e.source, cands[0], set(e.keep_derive) & KEEP_DERIVES if e.keep_derive else None)
        elif e.kind == 'fn':
            src = src_of(e.source)
            emit_fn(src, e.source, src.find('fn', e.fn.name)[0], e.fn, e.fn.name)
        elif e.kind == 'impl':
            src = src_of(e.source)
            fns = src.impl_fns(e.type, e.trait)
            chunks.append(('impl %s {\n' % e.type, None, None, None))
            for fs in e.fns:
                if fs.name not in fns:
                    raise RsxError('anchor lost: fn %s::%s not found in %s' % (e.type, fs.name, e.source))
                emit_fn(src, e.source, fns[fs.name], fs, '%s::%s' % (e.type, fs.name))
            chunks.append(('}\n\n', None, None, None))
    chunks.append(('\n} // verus!\nfn main() {}\n', None, None, None))

    # assemble, build line tables
    text = ''
    for ctext, origin, rel, fninfo in chunks:
        start_line = text.count('\n') + 1
        base = len(text)
        text += ctext
        end_line = text.count('\n') + (0 if text.endswith('\n') else 1)
        if origin:
            src = sources[rel]
            for a, b, s in origin:
                # every generated line that starts inside a verbatim piece maps to a source line
                l0 = text.count('\n', 0, base + a) + 1
                l1 = text.count('\n', 0, base + b) + 1
                for gl in range(l0, l1 + 1):
                    if gl not in g.line_src:
                        # offset of the start of generated line gl inside the piece
                        g.line_src[gl] = (rel, src.line_of(s) + (gl - l0))
        if fninfo:
            fninfo = dict(fninfo)
            fninfo['line_lo'], fninfo['line_hi'] = start_line, end_line
            g.functions.append(fninfo)
    g.text = text
    for i, line in enumerate(text.split('\n'), 1):
        m = re.search(r'// OBL (\S+)$', line)
        if m:
            g.obl_lines[i] = m.group(1)
    pre = unit['name']
    for f in g.functions:
        fs = f['spec']
        names = []
        for c in fs.ensures:
            names.append('%s/%s/ensures#%s' % (pre, f['qual'], c.label))
        for n, lp in fs.loops.items():
            for c in lp['invariant']:
                names.append('%s/%s/loop%d/invariant#%s' % (pre, f['qual'], n, c.label))
            for c in lp['decreases']:
                names.append('%s/%s/loop%d/decreases#%s' % (pre, f['qual'], n, c.label))
        # contract text per function (used to link an assumed callee contract to the unit that proves it)
        g.contract_text[f['qual']] = {'requires': sorted(c.text for c in fs.requires),
                                      'ensures': {c.label: c.text for c in fs.ensures}}
        if f['external']:
            g.assumed.extend(names)
        else:
            names.append('%s/%s/safety' % (pre, f['qual']))
            g.obligations.extend(names)
        f['obligations'] = names
    g.lemmas = []
    for m in re.finditer(r'((?:#\[verifier::external_body\]\s*)?)(?:pub\s+)?proof fn (\w+)', preamble_text):
        if m.group(1):
            continue   # axiom: trusted, listed by the assumption scan
        g.lemmas.append('%s/lemma::%s' % (unit['name'], m.group(2)))
    g.obligations.extend(g.lemmas)
    g.edit_stats = {k: v for k, v in stats.items() if v}
    return g


def _selfcheck(src, item, out, spans, edits):
    """generated text minus inserted spans must be token-identical to source minus deleted spans"""
    a = tok_texts(strip_spans(out, spans))
    lo = src.toks[item.first].start
    hi = src.toks[item.last].end
    dels = [(e.start - lo, e.end - lo, e.tag) for e in edits if e.end > e.start]
    b = tok_texts(strip_spans(src.text[lo:hi], dels))
    if a != b:
        raise RsxError('splicer self-check failed for %s %s' % (item.kind, item.name))


# ------------------------------------------------------------------------------------------------
# running Verus

def run_verus(path, rlimit=20, seed=0, timeout=600, threads=8):
    cmd = ['verus', path, '--error-format=json', '--output-json', '--time', '--multiple-errors', '20',
           '--rlimit', str(rlimit), '--num-threads', str(threads)]
    if seed:
        cmd += ['--smt-option', 'smt.random_seed=%d' % seed]
    t0 = time.time()
    try:
        p = subprocess.run(cmd, capture_output=True, text=True, timeout=timeout,
                           cwd=os.path.dirname(path))
    except subprocess.TimeoutExpired:
        return {'status': 'timeout', 'cmd': ' '.join(cmd), 'wall_s': time.time() - t0, 'diags': [],
                'results': {}, 'raw': 'timeout after %ds' % timeout}
    wall = time.time() - t0
    results = {}
    try:
        j = json.loads(p.stdout[p.stdout.index('{'):])
        results = j
    except (ValueError, json.JSONDecodeError):
        pass
    diags = []
    for line in p.stderr.splitlines():
        line = line.strip()
        if line.startswith('{'):
            try:
                d = json.loads(line)
            except json.JSONDecodeError:
                continue
            if d.get('$message_type') == 'diagnostic':
                diags.append(d)
    return {'status': 'ran', 'exit': p.returncode, 'cmd': ' '.join(cmd), 'wall_s': wall, 'diags': diags,
            'results': results, 'raw': p.stderr[-20000:], 'stdout': p.stdout[-5000:]}


UNDECIDED_PAT = re.compile(r'rlimit|Resource limit|timed out|could not finish|canceled', re.I)
TOOL_PAT = re.compile(r'not supported|unsupported|Verus does not|cannot find|mismatched types|expected|unresolved|'
                      r'not yet supported|is not allowed|must be|cannot use|use of undeclared|no method named|'
                      r'no field|the trait bound', re.I)


def classify(g, res):
    """-> dict(failed: {obligation: [messages]}, undecided: [reasons], verified:int, errors:int)"""
    out = {'failed': {}, 'undecided': [], 'verified': 0, 'errors': 0, 'smt_ms': None}
    if res['status'] != 'ran':
        out['undecided'].append('verus ' + res['status'])
        return out
    vr = res['results'].get('verification-results', {})
    out['verified'] = vr.get('verified', 0)
    out['errors'] = vr.get('errors', 0)
    tm = res['results'].get('times-ms', {})
    out['smt_ms'] = (tm.get('smt') or {}).get('total')
    out['total_ms'] = tm.get('total')
    if not vr:
        out['undecided'].append('verus produced no result JSON (front-end error)')
    if vr.get('encountered-vir-error'):
        out['undecided'].append('verus front-end (VIR) error: construct outside the supported subset')

    def fn_at(line):
        for f in g.functions:
            if f['line_lo'] <= line <= f['line_hi']:
                return f
        return None

    for d in res['diags']:
        if d.get('level') != 'error':
            continue
        msg = d.get('message', '')
        if msg.startswith('aborting due to'):
            continue
        spans = d.get('spans', [])
        prim = [s for s in spans if s.get('is_primary')]
        allspans = prim + [s for s in spans if not s.get('is_primary')]
        if UNDECIDED_PAT.search(msg):
            out['undecided'].append(msg)
            continue
        if d.get('code'):
            # a rustc error code (E0277, E0308, ...): the annotated text does not type-check - the verifier never
            # ran on it, so this is undecided, never a refutation
            out['undecided'].append('rustc error %s in the generated text (not a proof failure): %s' % (
                (d['code'] or {}).get('code'), msg))
            continue
        is_proof_failure = any(k in msg for k in (
            'postcondition not satisfied', 'precondition not satisfied', 'invariant not satisfied',
            'assertion failed', 'arithmetic underflow/overflow', 'decreases not satisfied',
            'possible division by zero', 'recommendation not met', 'loop invariant', 'might not',
            'not satisfied', 'possible bit shift', 'failed', 'unreachable'))
        if not is_proof_failure:
            out['undecided'].append('verus error (not a proof failure): ' + msg)
            continue
        name = None
        # an explicit clause among the spans wins (postcondition / invariant / callee precondition)
        for s in allspans:
            ln = s.get('line_start')
            if ln in g.obl_lines:
                name = g.obl_lines[ln]
                break
        f = None
        for s in prim:
            f = fn_at(s.get('line_start'))
            if f:
                break
        detail = msg
        if prim:
            ln = prim[0].get('line_start')
            where = g.line_src.get(ln)
            txt = (prim[0].get('text') or [{}])[0].get('text', '').strip()
            detail += ' @ %s: `%s`' % ('%s:%d' % where if where else 'generated:%d' % ln, txt)
        if 'precondition not satisfied' in msg and f is not None:
            # caller f fails a callee's precondition: that is f's safety obligation
            callee_clause = name
            name = '%s/%s/safety' % (g.unit_name, f['qual'])
            detail += ' (callee clause %s)' % callee_clause
        elif name is None or 'arithmetic' in msg:
            if f is None:
                out['undecided'].append('proof failure outside any contracted function (a lemma of the hand-written preamble): ' + detail)
                continue
            name = '%s/%s/safety' % (g.unit_name, f['qual'])
        out['failed'].setdefault(name, []).append(detail)
    if out['errors'] and not out['failed'] and not out['undecided']:
        out['undecided'].append('verus reported %d errors that could not be mapped' % out['errors'])
    return out
