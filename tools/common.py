import json
import os
import re
import shutil
import subprocess
import time

VERIF = os.path.dirname(os.path.dirname(os.path.abspath(__file__)))
REPO = os.environ.get('VERIF_REPO', '/repo')
CACHE = os.path.join(VERIF, '.cache')


def workdir(tag):
    d = os.path.join(CACHE, 'work', tag)
    os.makedirs(d, exist_ok=True)
    return d


def sync_repo(work):
    """fresh mirror of /repo's working tree at work/repo (build output kept between runs for speed;
    it is only a cache: everything is rebuilt from the mirrored sources)"""
    dst = os.path.join(work, 'repo')
    os.makedirs(dst, exist_ok=True)
    subprocess.run(['rsync', '-a', '--delete', '--exclude', '/target', '--exclude', '/.git', '--exclude', '/test262',
                    '--exclude', '/site', REPO + '/', dst + '/'], check=True)
    return dst


def append_file(path, text):
    with open(path, 'a') as f:
        f.write(text)


def git_head(path):
    try:
        return subprocess.run(['git', '-C', path, 'rev-parse', '--short', 'HEAD'], capture_output=True, text=True).stdout.strip()
    except OSError:
        return ''


def load_json(path, default=None):
    try:
        with open(path) as f:
            return json.load(f)
    except (OSError, json.JSONDecodeError):
        return default


def write_json(path, obj):
    os.makedirs(os.path.dirname(path), exist_ok=True)
    tmp = path + '.tmp'
    with open(tmp, 'w') as f:
        json.dump(obj, f, indent=1, sort_keys=False)
        f.write('\n')
    os.replace(tmp, path)


def known_findings():
    """known_findings.txt: lines `known: property=<id> obligation=<name> :: <what fails>` and
    `fixed: property=<id> <commit> <what failed>`.  Read-only at run time."""
    out = {'known': [], 'fixed': []}
    p = os.path.join(VERIF, 'known_findings.txt')
    if not os.path.exists(p):
        return out
    with open(p) as f:
        for line in f:
            line = line.strip()
            if not line or line.startswith('#'):
                continue
            m = re.match(r'known:\s+property=(\S+)\s+obligation=(\S+)\s*(?:match="([^"]*)"\s*)?(?:::\s*(.*))?$', line)
            if m:
                out['known'].append({'property': m.group(1), 'obligation': m.group(2), 'match': m.group(3) or '',
                                     'what': m.group(4) or ''})
                continue
            m = re.match(r'fixed:\s+property=(\S+)\s+(\S+)\s+(.*)$', line)
            if m:
                out['fixed'].append({'property': m.group(1), 'commit': m.group(2), 'what': m.group(3)})
    return out


def scan_assumptions(text, label):
    """mechanical scan for trust points in generated / harness text"""
    pats = [('assume(', r'\bassume\s*\('), ('admit(', r'\badmit\s*\('),
            ('external_body', r'external_body'), ('assume_specification', r'assume_specification'),
            ('axiom', r'\baxiom\b|#\[verifier::external\b'), ('kani::assume', r'kani::assume\s*\('),
            ('unsafe', r'\bunsafe\b')]
    out = []
    for name, pat in pats:
        n = len(re.findall(pat, text))
        if n:
            out.append('%s: %d x %s' % (label, n, name))
    return out


def run_group(cmd, cwd=None, env=None, timeout=None):
    """subprocess.run(capture_output, text) in its own process group; on timeout the WHOLE group is killed
    (cargo's child test binaries / cbmc would otherwise survive and keep a core busy).  -> (returncode|None, output)"""
    import os
    import signal
    p = subprocess.Popen(cmd, cwd=cwd, env=env, stdout=subprocess.PIPE, stderr=subprocess.STDOUT, text=True,
                         start_new_session=True)
    try:
        out, _ = p.communicate(timeout=timeout)
        return p.returncode, out
    except subprocess.TimeoutExpired:
        try:
            os.killpg(p.pid, signal.SIGKILL)
        except OSError:
            pass
        try:
            out, _ = p.communicate(timeout=30)
        except Exception:
            out = ''
        return None, (out or '') + '\nTIMEOUT after %s s (process group killed)' % timeout
