// Kani contract for round_decimal_digits (src/interpreter/builtins/number.rs), the rounding step shared by
// Number.prototype.toFixed / toExponential / toPrecision (C15: "fixed, precision, exponential ... formatting agree
// with exact decimal arithmetic").  BOUNDED: digit vectors of exactly N digits (one harness per N), every digit
// 0..=9 symbolic, exponent symbolic, every requested digit count k in -1..=N+1 (one concrete instantiation each).  The specification is integer arithmetic on the
// value of the digit string (u64) and shares nothing with the implementation's carry loop.
use super::*;

#[cfg(not(kani))]
#[path = "/verif/kani/native_shim.rs"]
mod kani;

fn val(d: &[u8]) -> u64 {
    let mut v = 0u64;
    let mut i = 0;
    while i < d.len() {
        v = v * 10 + d[i] as u64;
        i += 1;
    }
    v
}
fn pow10(k: usize) -> u64 {
    let mut p = 1u64;
    let mut i = 0;
    while i < k {
        p *= 10;
        i += 1;
    }
    p
}

fn round_contract<const N: usize, const K: i32>() {
    let arr: [u8; N] = kani::any();
    let mut i = 0;
    while i < N {
        kani::assume(arr[i] <= 9);
        i += 1;
    }
    let exp: i32 = kani::any();
    kani::assume(exp > -2000 && exp < 2000);
    // the requested digit count is concrete per instantiation (a symbolic Vec::resize length exhausts CBMC's memory)
    let k: i32 = K;
    let digits: Vec<u8> = arr.to_vec();
    let (r, e) = round_decimal_digits(digits, exp, k);
    if k <= 0 {
        // rounding at or left of the first digit: a single unit one place up, or zero
        if k == 0 && N > 0 && arr[0] >= 5 {
            assert!(r.len() == 1 && r[0] == 1 && e == exp + 1, "OBL number_round/round_decimal_digits/ensures#left_of_first_digit_half_or_more_is_one_unit");
        } else {
            assert!(r.is_empty() && e == exp, "OBL number_round/round_decimal_digits/ensures#left_of_first_digit_below_half_is_zero");
        }
        return;
    }
    let k = k as usize;
    assert!(r.len() == k, "OBL number_round/round_decimal_digits/ensures#exactly_k_digits");
    let mut j = 0;
    while j < r.len() {
        assert!(r[j] <= 9, "OBL number_round/round_decimal_digits/ensures#digits_are_decimal");
        j += 1;
    }
    // value of the first k digits (zero padded when fewer exist), plus one when the next digit is 5 or more:
    // "n / 10^(e-k+1) - x as close to zero as possible; if there are two such n, pick the larger n"
    let kept = if k <= N { val(&arr[..k]) } else { val(&arr) * pow10(k - N) };
    let up = k < N && arr[k] >= 5;
    let want = kept + if up { 1 } else { 0 };
    if want == pow10(k) {
        assert!(val(&r) == pow10(k - 1) && e == exp + 1, "OBL number_round/round_decimal_digits/ensures#carry_out_moves_the_exponent");
    } else {
        assert!(val(&r) == want && e == exp, "OBL number_round/round_decimal_digits/ensures#half_or_more_rounds_up_else_truncates");
    }
    kani::cover!(true, "COVER rounding inside the digits reached");
    if N >= 2 {
        kani::cover!(up && want == pow10(k), "COVER carry out of the leading digit");
        kani::cover!(k < N && arr[k] == 5 && !(want == pow10(k)), "COVER exact-half digit rounds up");
    }
    kani::cover!(k > N, "COVER padding with zeros");
}

#[cfg_attr(kani, kani::proof)]
#[cfg_attr(kani, kani::unwind(12))]
fn round_digits_len1() { round_contract::<1, -1>(); round_contract::<1, 0>(); round_contract::<1, 1>(); round_contract::<1, 2>(); }
#[cfg_attr(kani, kani::proof)]
#[cfg_attr(kani, kani::unwind(12))]
fn round_digits_len2() { round_contract::<2, -1>(); round_contract::<2, 0>(); round_contract::<2, 1>(); round_contract::<2, 2>(); round_contract::<2, 3>(); }
#[cfg_attr(kani, kani::proof)]
#[cfg_attr(kani, kani::unwind(12))]
fn round_digits_len3() { round_contract::<3, -1>(); round_contract::<3, 0>(); round_contract::<3, 1>(); round_contract::<3, 2>(); round_contract::<3, 3>(); round_contract::<3, 4>(); }
#[cfg_attr(kani, kani::proof)]
#[cfg_attr(kani, kani::unwind(12))]
fn round_digits_len5() { round_contract::<5, -1>(); round_contract::<5, 0>(); round_contract::<5, 1>(); round_contract::<5, 2>(); round_contract::<5, 3>(); round_contract::<5, 4>(); round_contract::<5, 5>(); round_contract::<5, 6>(); }
#[cfg_attr(kani, kani::proof)]
#[cfg_attr(kani, kani::unwind(14))]
fn round_digits_len8() { round_contract::<8, -1>(); round_contract::<8, 0>(); round_contract::<8, 1>(); round_contract::<8, 2>(); round_contract::<8, 3>(); round_contract::<8, 4>(); round_contract::<8, 5>(); round_contract::<8, 6>(); round_contract::<8, 7>(); round_contract::<8, 8>(); round_contract::<8, 9>(); }

#[cfg(all(test, not(kani)))]
#[test]
fn verif_replay_number_round() {
    kani::replay_main(&[
        ("round_digits_len1", round_digits_len1 as fn()),
        ("round_digits_len2", round_digits_len2 as fn()),
        ("round_digits_len3", round_digits_len3 as fn()),
        ("round_digits_len5", round_digits_len5 as fn()),
        ("round_digits_len8", round_digits_len8 as fn()),
    ]);
}
