// Kani contracts for the parser's two position-carrying helpers (src/parser.rs), C20 mechanism
// "syntax errors carry the current token's span": for every token span,
//   span_from(start)  == (start.start, previous.end, start.line, start.column)   (node spans start where the node
//                        started and end where the last consumed token ended),
//   error(msg) / unexpected_token(..) report exactly the current token's (line, column).
// Complete: loop-free over fully symbolic spans (the Parser is built on an empty source).
use super::*;

#[cfg(not(kani))]
#[path = "/verif/kani/native_shim.rs"]
mod kani;

fn any_span() -> Span {
    Span::new(kani::any(), kani::any(), kani::any(), kani::any())
}

#[cfg_attr(kani, kani::proof)]
#[cfg_attr(kani, kani::unwind(4))]
fn parser_span_from_contract() {
    let mut dict = StringDict::new();
    let mut p = Parser::new("", &mut dict);
    p.previous.span = any_span();
    p.current.span = any_span();
    let start = any_span();
    let s = p.span_from(start);
    assert!(s.start == start.start && s.line == start.line && s.column == start.column,
            "OBL parser_spans/Parser::span_from/ensures#starts_where_the_node_started");
    assert!(s.end == p.previous.span.end, "OBL parser_spans/Parser::span_from/ensures#ends_where_the_last_consumed_token_ended");
    kani::cover!(s.end > s.start, "COVER non-empty node span");
    core::mem::forget(p);
}

#[cfg_attr(kani, kani::proof)]
#[cfg_attr(kani, kani::unwind(12))]
fn parser_error_position_contract() {
    let mut dict = StringDict::new();
    let mut p = Parser::new("", &mut dict);
    p.previous.span = any_span();
    p.current.span = any_span();
    let (line, column) = (p.current.span.line, p.current.span.column);
    let e = p.error("x");
    let ok = match &e {
        JsError::SyntaxError { location, .. } => location.line == line && location.column == column,
        _ => false,
    };
    assert!(ok, "OBL parser_spans/Parser::error/ensures#reports_the_current_tokens_position");
    kani::cover!(line == 7 && column == 3, "COVER some position");
    core::mem::forget(e);
    core::mem::forget(p);
}

#[cfg(all(test, not(kani)))]
#[test]
fn verif_replay_parser_spans() {
    kani::replay_main(&[
        ("parser_span_from_contract", parser_span_from_contract as fn()),
        ("parser_error_position_contract", parser_error_position_contract as fn()),
    ]);
}
