// Kani contract for RegisterAllocator::restore (src/compiler/builder.rs) - the one allocator method
// Verus cannot ingest (`retain(|&r| r < pos)` uses a pattern closure).  BOUNDED: one harness per
// (free-list length, saved-stack length) pair, lengths up to 4/2 (6/2 in the thorough tier); labelled bounded in the evidence, never counted as proved.
// The same clauses are ASSUMED for `restore` inside the Verus unit (contracts/builder.spec).
use super::*;

#[cfg(not(kani))]
#[path = "/verif/kani/native_shim.rs"]
mod kani;

fn wf(a: &RegisterAllocator) -> bool {
    if a.max_used < a.next {
        return false;
    }
    let mut i = 0;
    while i < a.free_list.len() {
        if a.free_list[i] >= a.next {
            return false;
        }
        let mut j = i + 1;
        while j < a.free_list.len() {
            if a.free_list[i] == a.free_list[j] {
                return false;
            }
            j += 1;
        }
        i += 1;
    }
    let mut k = 0;
    while k < a.saved.len() {
        if a.saved[k] > a.max_used {
            return false;
        }
        k += 1;
    }
    true
}

// NF / NS: (concrete) lengths of the free list and the saved stack of one harness; all entries, `next`
// and `max_used` are symbolic and constrained only by the representation invariant wf.
fn restore_contract<const NF: usize, const NS: usize>() {
    let mut a = RegisterAllocator::new();
    a.next = kani::any();
    a.max_used = kani::any();
    let free: [u8; NF] = kani::any();
    let saved: [u8; NS] = kani::any();
    a.free_list = Vec::with_capacity(NF);
    a.saved = Vec::with_capacity(NS);
    let mut i = 0;
    while i < NF {
        a.free_list.push(free[i]);
        i += 1;
    }
    let mut s = 0;
    while s < NS {
        a.saved.push(saved[s]);
        s += 1;
    }
    kani::assume(wf(&a));
    let old_next = a.next;
    let old_max = a.max_used;

    a.restore();

    assert!(wf(&a), "OBL builder_restore/RegisterAllocator::restore/ensures#wf");
    assert!(a.max_used == old_max, "OBL builder_restore/RegisterAllocator::restore/ensures#max_same");
    if NS == 0 {
        assert!(a.next == old_next && a.free_list.len() == NF && a.saved.is_empty(),
                "OBL builder_restore/RegisterAllocator::restore/ensures#empty_noop");
        kani::cover!(true, "COVER restore on empty saved stack");
        if NF > 0 {
            let w: usize = kani::any();
            kani::assume(w < NF);
            assert!(a.free_list[w] == free[w], "OBL builder_restore/RegisterAllocator::restore/ensures#empty_noop_free_list");
        }
    } else {
        let pos = saved[NS - 1];
        assert!(a.next == pos, "OBL builder_restore/RegisterAllocator::restore/ensures#next");
        assert!(a.saved.len() == NS - 1, "OBL builder_restore/RegisterAllocator::restore/ensures#saved_popped");
        if NS > 1 {
            let w: usize = kani::any();
            kani::assume(w < NS - 1);
            assert!(a.saved[w] == saved[w], "OBL builder_restore/RegisterAllocator::restore/ensures#saved_rest_kept");
        }
        // free list == old entries < pos, in order
        let mut expect = [0u8; NF];
        let mut n = 0;
        let mut q = 0;
        while q < NF {
            if free[q] < pos {
                expect[n] = free[q];
                n += 1;
            }
            q += 1;
        }
        assert!(a.free_list.len() == n, "OBL builder_restore/RegisterAllocator::restore/ensures#free_filtered_len");
        kani::cover!(NF < 2 || (n < NF && n > 0), "COVER restore drops some free entries and keeps some");
        if n > 0 {
            let v: usize = kani::any();
            kani::assume(v < n);
            assert!(a.free_list[v] == expect[v], "OBL builder_restore/RegisterAllocator::restore/ensures#free_filtered_entries");
        }
    }
}

macro_rules! restore_harness {
    ($name:ident, $nf:expr, $ns:expr) => {
        #[cfg_attr(kani, kani::proof)]
        #[cfg_attr(kani, kani::unwind(9))]
        fn $name() {
            restore_contract::<$nf, $ns>();
        }
    };
}
restore_harness!(restore_f0_s0, 0, 0);
restore_harness!(restore_f2_s0, 2, 0);
restore_harness!(restore_f0_s1, 0, 1);
restore_harness!(restore_f1_s1, 1, 1);
restore_harness!(restore_f2_s1, 2, 1);
restore_harness!(restore_f3_s2, 3, 2);
restore_harness!(restore_f4_s1, 4, 1);
restore_harness!(restore_f6_s2, 6, 2);

#[cfg(all(test, not(kani)))]
#[test]
fn verif_replay_builder_restore() {
    kani::replay_main(&[
        ("restore_f0_s0", restore_f0_s0 as fn()),
        ("restore_f2_s0", restore_f2_s0 as fn()),
        ("restore_f0_s1", restore_f0_s1 as fn()),
        ("restore_f1_s1", restore_f1_s1 as fn()),
        ("restore_f2_s1", restore_f2_s1 as fn()),
        ("restore_f3_s2", restore_f3_s2 as fn()),
        ("restore_f4_s1", restore_f4_s1 as fn()),
        ("restore_f6_s2", restore_f6_s2 as fn()),
    ]);
}
