// Kani contract for RegisterAllocator::restore (src/compiler/builder.rs) - the one allocator method
// Verus cannot ingest (`retain(|&r| r < pos)` uses a pattern closure).  BOUNDED: free list <= 4 entries
// (<= 6 in the thorough tier), saved stack <= 2; labelled bounded in the evidence, never counted as proved.
// The same clauses are ASSUMED for `restore` inside the Verus unit (contracts/builder.spec).
use super::*;

#[cfg(not(kani))]
#[path = "/verif/kani/native_shim.rs"]
mod kani;

fn wf(a: &RegisterAllocator) -> bool {
    if a.max_used < a.next {
        return false;
    }
    let mut i = 0;
    while i < a.free_list.len() {
        if a.free_list[i] >= a.next {
            return false;
        }
        let mut j = i + 1;
        while j < a.free_list.len() {
            if a.free_list[i] == a.free_list[j] {
                return false;
            }
            j += 1;
        }
        i += 1;
    }
    let mut k = 0;
    while k < a.saved.len() {
        if a.saved[k] > a.max_used {
            return false;
        }
        k += 1;
    }
    true
}

fn restore_contract(max_free: usize) {
    let mut a = RegisterAllocator::new();
    a.next = kani::any();
    a.max_used = kani::any();
    let nfree: usize = kani::any();
    kani::assume(nfree <= max_free);
    let mut i = 0;
    while i < max_free {
        let v: u8 = kani::any();
        if i < nfree {
            a.free_list.push(v);
        }
        i += 1;
    }
    let nsaved: usize = kani::any();
    kani::assume(nsaved <= 2);
    let mut s = 0;
    while s < 2 {
        let v: u8 = kani::any();
        if s < nsaved {
            a.saved.push(v);
        }
        s += 1;
    }
    kani::assume(wf(&a));
    let old_next = a.next;
    let old_max = a.max_used;
    let old_free = a.free_list.clone();
    let old_saved = a.saved.clone();

    a.restore();

    assert!(wf(&a), "OBL builder_restore/RegisterAllocator::restore/ensures#wf");
    assert!(a.max_used == old_max, "OBL builder_restore/RegisterAllocator::restore/ensures#max_same");
    if nsaved == 0 {
        assert!(a.next == old_next && a.free_list == old_free && a.saved.is_empty(),
                "OBL builder_restore/RegisterAllocator::restore/ensures#empty_noop");
    } else {
        let pos = old_saved[nsaved - 1];
        assert!(a.next == pos, "OBL builder_restore/RegisterAllocator::restore/ensures#next");
        assert!(a.saved.len() == nsaved - 1 && (nsaved < 2 || a.saved[0] == old_saved[0]),
                "OBL builder_restore/RegisterAllocator::restore/ensures#saved");
        // free list == old entries < pos, in order
        let mut expect: Vec<u8> = Vec::new();
        let mut q = 0;
        while q < max_free {
            if q < nfree && old_free[q] < pos {
                expect.push(old_free[q]);
            }
            q += 1;
        }
        assert!(a.free_list == expect, "OBL builder_restore/RegisterAllocator::restore/ensures#free_filtered");
        kani::cover!(expect.len() < nfree && expect.len() > 0, "COVER restore drops some free entries and keeps some");
    }
    kani::cover!(nsaved == 0, "COVER restore on empty saved stack");
}

#[cfg_attr(kani, kani::proof)]
#[cfg_attr(kani, kani::unwind(6))]
fn restore_contract_free4() {
    restore_contract(4);
}

#[cfg_attr(kani, kani::proof)]
#[cfg_attr(kani, kani::unwind(8))]
fn restore_contract_free6() {
    restore_contract(6);
}

#[cfg(all(test, not(kani)))]
#[test]
fn verif_replay_builder_restore() {
    kani::replay_main(&[
        ("restore_contract_free4", restore_contract_free4 as fn()),
        ("restore_contract_free6", restore_contract_free6 as fn()),
    ]);
}
