// Kani contracts for the handle layer of the collector (src/gc.rs): Gc::clone / Gc::drop /
// Guard::guard / Guard::drop.  C13 clause: "... cloning and dropping handles ... dropping the heap while
// handles remain ... No such sequence reads or writes freed or out-of-bounds memory."
//
// Dead-heap contracts (complete, loop-free): a handle or guard whose Space is gone (Weak::upgrade fails)
// carries a DANGLING box pointer; the contract is that clone / drop / guard never dereference it.  The box
// is really deallocated in the harness, so any access is a CBMC pointer-check failure.
// (A live-heap contract - clone adds one handle count, drop removes one, on a real one-object heap - was
// tried and dropped: CBMC gave no verdict in 25 min on Heap::new + Guard::alloc.)
use super::*;

#[cfg(not(kani))]
#[path = "/verif/kani/native_shim.rs"]
mod kani;

#[derive(Default)]
struct Obj {
    v: u32,
}
impl Reset for Obj {
    fn reset(&mut self) {
        self.v = 0;
    }
}
impl Traceable for Obj {
    fn trace<F: FnMut(GcPtr<Self>)>(&self, _visitor: F) {}
}

// a pointer to a GcBox that has been freed (what a handle holds after its heap was dropped)
fn freed_box() -> NonNull<GcBox<Obj>> {
    let b = Box::new(GcBox::new(kani::any(), Obj { v: kani::any() }));
    let raw = Box::into_raw(b);
    unsafe {
        drop(Box::from_raw(raw));
    }
    match NonNull::new(raw) {
        Some(p) => p,
        None => NonNull::dangling(),
    }
}

#[cfg_attr(kani, kani::proof)]
#[cfg_attr(kani, kani::unwind(3))]
fn handle_clone_after_heap_drop() {
    let g: Gc<Obj> = Gc { ptr: freed_box(), space: Weak::new() };
    let h = g.clone();
    assert!(h.ptr == g.ptr, "OBL gc_handles/Gc::clone/ensures#dead_heap_clone_is_same_handle");
    kani::cover!(true, "COVER clone on a dead heap reached");
    // dropping both must not touch the freed box either
    drop(h);
    drop(g);
    kani::cover!(true, "COVER drops on a dead heap reached");
}

#[cfg_attr(kani, kani::proof)]
#[cfg_attr(kani, kani::unwind(3))]
fn guard_ops_after_heap_drop() {
    let guard: Guard<Obj> = Guard::new(Weak::new(), Rc::new(GuardInner::new()));
    let g: Gc<Obj> = Gc { ptr: freed_box(), space: Weak::new() };
    guard.guard(g);
    assert!(guard.len() == 0, "OBL gc_handles/Guard::guard/ensures#dead_heap_guard_is_noop");
    kani::cover!(true, "COVER guard on a dead heap reached");
    drop(guard);
}

#[cfg(all(test, not(kani)))]
#[test]
fn verif_replay_gc_handles() {
    kani::replay_main(&[
        ("handle_clone_after_heap_drop", handle_clone_after_heap_drop as fn()),
        ("guard_ops_after_heap_drop", guard_ops_after_heap_drop as fn()),
    ]);
}
