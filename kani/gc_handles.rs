// Kani contracts for the handle layer of the collector (src/gc.rs): Gc::clone / Gc::drop /
// Guard::guard / Guard::drop.  C13 clause: "... cloning and dropping handles ... dropping the heap while
// handles remain ... No such sequence reads or writes freed or out-of-bounds memory."
//
// Dead-heap contracts (complete, loop-free): a handle or guard whose Space is gone (Weak::upgrade fails)
// carries a DANGLING box pointer; the contract is that clone / drop / guard never dereference it.  The box
// is really deallocated in the harness, so any access is a CBMC pointer-check failure.
// (A live-heap contract - clone adds one handle count, drop removes one, on a real one-object heap - was
// tried and dropped: CBMC gave no verdict in 25 min on Heap::new + Guard::alloc.)
use super::*;

#[cfg(not(kani))]
#[path = "/verif/kani/native_shim.rs"]
mod kani;

#[derive(Default)]
struct Obj {
    v: u32,
}
impl Reset for Obj {
    fn reset(&mut self) {
        self.v = 0;
    }
}
impl Traceable for Obj {
    fn trace<F: FnMut(GcPtr<Self>)>(&self, _visitor: F) {}
}

// a pointer to a GcBox that has been freed (what a handle holds after its heap was dropped)
fn freed_box() -> NonNull<GcBox<Obj>> {
    let b = Box::new(GcBox::new(kani::any(), Obj { v: kani::any() }));
    let raw = Box::into_raw(b);
    unsafe {
        drop(Box::from_raw(raw));
    }
    match NonNull::new(raw) {
        Some(p) => p,
        None => NonNull::dangling(),
    }
}

#[cfg_attr(kani, kani::proof)]
#[cfg_attr(kani, kani::unwind(3))]
fn handle_clone_after_heap_drop() {
    let g: Gc<Obj> = Gc { ptr: freed_box(), space: Weak::new() };
    let h = g.clone();
    assert!(h.ptr == g.ptr, "OBL gc_handles/Gc::clone/ensures#dead_heap_clone_is_same_handle");
    kani::cover!(true, "COVER clone on a dead heap reached");
    // dropping both must not touch the freed box either
    drop(h);
    drop(g);
    kani::cover!(true, "COVER drops on a dead heap reached");
}

#[cfg_attr(kani, kani::proof)]
#[cfg_attr(kani, kani::unwind(3))]
fn guard_ops_after_heap_drop() {
    let guard: Guard<Obj> = Guard::new(Weak::new(), Rc::new(GuardInner::new()));
    let g: Gc<Obj> = Gc { ptr: freed_box(), space: Weak::new() };
    guard.guard(g);
    assert!(guard.len() == 0, "OBL gc_handles/Guard::guard/ensures#dead_heap_guard_is_noop");
    kani::cover!(true, "COVER guard on a dead heap reached");
    drop(guard);
}

// Guard::guard on a LIVE heap: the object becomes a root iff its slot is not pooled (a stale handle to a
// reclaimed slot must not become a latent root that adopts the slot's next tenant).  The Space is real but
// empty; the box is a separately allocated live GcBox whose `pooled` flag is symbolic.
#[cfg_attr(kani, kani::proof)]
#[cfg_attr(kani, kani::unwind(4))]
fn guard_live_heap_respects_pooled() {
    let space: Rc<RefCell<Space<Obj>>> = Rc::new(RefCell::new(Space::new()));
    let guard: Guard<Obj> = Guard::new(Rc::downgrade(&space), Rc::new(GuardInner::new()));
    let boxed = Box::new(GcBox::new(kani::any(), Obj { v: kani::any() }));
    let pooled: bool = kani::any();
    boxed.pooled.set(pooled);
    boxed.ref_count.set(1);
    let raw = Box::into_raw(boxed);
    let ptr = match NonNull::new(raw) {
        Some(p) => p,
        None => NonNull::dangling(),
    };
    let obj: Gc<Obj> = Gc { ptr, space: Weak::new() };
    guard.guard(obj);
    let n = guard.len();
    assert!(n == if pooled { 0 } else { 1 }, "OBL gc_handles/Guard::guard/ensures#live_heap_roots_only_unpooled_objects");
    if !pooled {
        assert!(guard.inner.roots.borrow()[0] == ptr, "OBL gc_handles/Guard::guard/ensures#live_heap_root_is_the_object");
    }
    kani::cover!(pooled, "COVER guarding a pooled (stale) object");
    kani::cover!(!pooled, "COVER guarding a live object");
    // the drop glue of a live Space is beyond CBMC here (out of memory): leak instead of dropping
    core::mem::forget(guard);
    core::mem::forget(space);
}

// (Gc::clone / Gc::drop on a LIVE space - count +1 / -1, last handle resets and pools the slot once - were
// tried with the same construction and dropped: CBMC runs out of memory on the Rc<RefCell<Space>> drop glue
// that every upgrade() of a live Weak<Space> drags in.)

// ---- pooling: a reclaimed slot enters the free list exactly once and comes back reset ----------------
fn live_box(pooled: bool, rc: usize, payload: u32) -> NonNull<GcBox<Obj>> {
    let boxed = Box::new(GcBox::new(kani::any(), Obj { v: payload }));
    boxed.pooled.set(pooled);
    boxed.ref_count.set(rc);
    match NonNull::new(Box::into_raw(boxed)) {
        Some(p) => p,
        None => NonNull::dangling(),
    }
}

// Space::pool_object: idempotent - a slot is never entered into the free list twice (a duplicate entry would
// hand the same slot to two allocations), the allocation counter drops exactly once.
#[cfg_attr(kani, kani::proof)]
#[cfg_attr(kani, kani::unwind(4))]
fn space_pool_object_once() {
    let mut space: Space<Obj> = Space::new();
    let pooled: bool = kani::any();
    let ptr = live_box(pooled, kani::any(), kani::any());
    let n0 = space.net_allocs;
    space.pool_object(0, ptr);
    space.pool_object(0, ptr);
    let expect = if pooled { 0 } else { 1 };
    assert!(space.free_list.len() == expect, "OBL gc_handles/Space::pool_object/ensures#slot_enters_free_list_at_most_once");
    assert!(unsafe { ptr.as_ref().pooled.get() }, "OBL gc_handles/Space::pool_object/ensures#slot_marked_pooled");
    assert!(space.net_allocs == n0 - expect as isize, "OBL gc_handles/Space::pool_object/ensures#allocation_counter_drops_once");
    kani::cover!(!pooled, "COVER pooling a live slot twice");
    core::mem::forget(space);
}

// Space::alloc_internal, reuse path: a pooled slot comes back reset (default payload), with one handle,
// not pooled, and leaves the free list; no other slot is touched.
#[cfg_attr(kani, kani::proof)]
#[cfg_attr(kani, kani::unwind(4))]
fn space_alloc_reuses_pooled_slot_reset() {
    let mut space: Space<Obj> = Space::new();
    space.gc_threshold = 0; // no automatic collection inside this harness
    let stale_payload: u32 = kani::any();
    let ptr = live_box(true, kani::any(), stale_payload);
    space.free_list.push(ptr);
    let g = space.alloc_internal();
    assert!(g.ptr == ptr, "OBL gc_handles/Space::alloc_internal/ensures#reuses_the_pooled_slot");
    assert!(space.free_list.len() == 0, "OBL gc_handles/Space::alloc_internal/ensures#slot_leaves_free_list");
    assert!(unsafe { ptr.as_ref().data.borrow().v } == 0, "OBL gc_handles/Space::alloc_internal/ensures#reused_slot_is_reset");
    assert!(unsafe { ptr.as_ref().ref_count.get() } == 1 && !unsafe { ptr.as_ref().pooled.get() },
            "OBL gc_handles/Space::alloc_internal/ensures#one_handle_not_pooled");
    assert!(space.chunks.len() == 0, "OBL gc_handles/Space::alloc_internal/ensures#no_new_chunk_when_reusing");
    kani::cover!(stale_payload == 99, "COVER reuse of a slot with stale contents");
    core::mem::forget(g);
    core::mem::forget(space);
}

// Guard::unguard / len / clear on the root list (a multiset: the VM guards the same object several times
// and expects one unguard to remove exactly one occurrence).  The list never dereferences its entries, so
// the entries are pointers to freed boxes.  BOUNDED: one harness per root-list length N.
fn count(roots: &[NonNull<GcBox<Obj>>], p: NonNull<GcBox<Obj>>) -> usize {
    let mut n = 0;
    let mut i = 0;
    while i < roots.len() {
        if roots[i] == p {
            n += 1;
        }
        i += 1;
    }
    n
}

fn unguard_contract<const N: usize>() {
    let cands = [freed_box(), freed_box(), freed_box()];
    let guard: Guard<Obj> = Guard::new(Weak::new(), Rc::new(GuardInner::new()));
    let picks: [u8; N] = kani::any();
    let mut i = 0;
    while i < N {
        kani::assume(picks[i] < 3);
        guard.inner.roots.borrow_mut().push(cands[picks[i] as usize]);
        i += 1;
    }
    let before: Vec<NonNull<GcBox<Obj>>> = guard.inner.roots.borrow().clone();
    let which: u8 = kani::any();
    kani::assume(which < 3);
    let target = cands[which as usize];
    let obj: Gc<Obj> = Gc { ptr: target, space: Weak::new() };
    assert!(guard.len() == N, "OBL gc_handles/Guard::len/ensures#number_of_roots");
    let r = guard.unguard(&obj);
    let after: Vec<NonNull<GcBox<Obj>>> = guard.inner.roots.borrow().clone();
    let had = count(&before, target);
    assert!(r == (had > 0), "OBL gc_handles/Guard::unguard/ensures#true_iff_was_guarded");
    assert!(count(&after, target) == if had > 0 { had - 1 } else { 0 }, "OBL gc_handles/Guard::unguard/ensures#removes_exactly_one_occurrence");
    let other: u8 = kani::any();
    kani::assume(other < 3 && other != which);
    assert!(count(&after, cands[other as usize]) == count(&before, cands[other as usize]), "OBL gc_handles/Guard::unguard/ensures#other_roots_kept");
    assert!(after.len() + (if r { 1 } else { 0 }) == N, "OBL gc_handles/Guard::unguard/ensures#length");
    kani::cover!(N < 2 || had == 2, "COVER same object guarded twice");
    guard.clear();
    assert!(guard.is_empty() && guard.len() == 0, "OBL gc_handles/Guard::clear/ensures#no_roots_left");
    // Guard::drop / Gc::drop on a dead heap have their own harnesses above; leaking here keeps their glue out
    core::mem::forget(obj);
    core::mem::forget(guard);
}

macro_rules! unguard_harness {
    ($name:ident, $n:expr) => {
        #[cfg_attr(kani, kani::proof)]
        #[cfg_attr(kani, kani::unwind(6))]
        fn $name() {
            unguard_contract::<$n>();
        }
    };
}
unguard_harness!(guard_unguard_roots0, 0);
unguard_harness!(guard_unguard_roots1, 1);
unguard_harness!(guard_unguard_roots2, 2);
unguard_harness!(guard_unguard_roots3, 3);

// ---- guard-storage pooling: storage that passes through the pool comes back with no roots ------------
// Space::return_guard_to_pool(storage) then Space::create_guard(): C13 "creating and dropping guards ... exactly the
// objects reachable from LIVE guards are counted live" - a new guard built on recycled storage must not inherit
// the roots of the dead guard the storage came from.  The recycled roots are dangling pointers to really freed
// boxes, so any dereference is a CBMC pointer-check failure.  K = storages already pooled, N = roots returned.
fn guard_pool_contract<const K: usize, const N: usize>() {
    let mut space: Space<Obj> = Space::new();
    for _ in 0..K {
        space.guard_pool.push(Vec::new()); // pool invariant on entry: pooled storage holds no roots
    }
    let mut storage: Vec<NonNull<GcBox<Obj>>> = Vec::new();
    for _ in 0..N {
        storage.push(freed_box());
    }
    space.return_guard_to_pool(storage);
    assert!(space.guard_pool.len() == if K < 16 { K + 1 } else { 16 }, "OBL gc_handles/Space::return_guard_to_pool/ensures#pool_grows_by_one_up_to_16");
    let mut all_empty = true;
    for v in space.guard_pool.iter() {
        if !v.is_empty() {
            all_empty = false;
        }
    }
    assert!(all_empty, "OBL gc_handles/Space::return_guard_to_pool/ensures#pooled_storage_holds_no_roots");
    let pool0 = space.guard_pool.len();
    let active0 = space.active_guards.len();
    let g = space.create_guard();
    assert!(g.len() == 0 && g.is_empty(), "OBL gc_handles/Space::create_guard/ensures#new_guard_has_no_roots");
    assert!(space.guard_pool.len() == pool0 - 1, "OBL gc_handles/Space::create_guard/ensures#takes_one_pooled_storage");
    assert!(space.active_guards.len() == active0 + 1, "OBL gc_handles/Space::create_guard/ensures#guard_registered_once");
    let registered = match space.active_guards.last().and_then(|w| w.upgrade()) {
        Some(rc) => Rc::ptr_eq(&rc, &g.inner),
        None => false,
    };
    assert!(registered, "OBL gc_handles/Space::create_guard/ensures#registered_entry_is_this_guard");
    kani::cover!(N > 0, "COVER storage with stale roots recycled");
    core::mem::forget(g);
    core::mem::forget(space);
}

// a fresh guard (empty pool) has no roots and is registered
#[cfg_attr(kani, kani::proof)]
#[cfg_attr(kani, kani::unwind(3))]
fn space_create_guard_fresh() {
    let mut space: Space<Obj> = Space::new();
    let g = space.create_guard();
    assert!(g.len() == 0 && g.is_empty(), "OBL gc_handles/Space::create_guard/ensures#fresh_guard_has_no_roots");
    assert!(space.active_guards.len() == 1, "OBL gc_handles/Space::create_guard/ensures#fresh_guard_registered_once");
    kani::cover!(true, "COVER fresh guard");
    core::mem::forget(g);
    core::mem::forget(space);
}

macro_rules! guard_pool_harness {
    ($name:ident, $k:expr, $n:expr) => {
        #[cfg_attr(kani, kani::proof)]
        #[cfg_attr(kani, kani::unwind(19))]
        fn $name() {
            guard_pool_contract::<$k, $n>();
        }
    };
}
guard_pool_harness!(guard_pool_k0_n2, 0, 2);
guard_pool_harness!(guard_pool_k15_n1, 15, 1);
guard_pool_harness!(guard_pool_k16_n1, 16, 1);


#[cfg(all(test, not(kani)))]
#[test]
fn verif_replay_gc_handles() {
    kani::replay_main(&[
        ("handle_clone_after_heap_drop", handle_clone_after_heap_drop as fn()),
        ("guard_ops_after_heap_drop", guard_ops_after_heap_drop as fn()),
        ("guard_live_heap_respects_pooled", guard_live_heap_respects_pooled as fn()),
        ("space_pool_object_once", space_pool_object_once as fn()),
        ("space_alloc_reuses_pooled_slot_reset", space_alloc_reuses_pooled_slot_reset as fn()),
        ("guard_unguard_roots0", guard_unguard_roots0 as fn()),
        ("guard_unguard_roots1", guard_unguard_roots1 as fn()),
        ("guard_unguard_roots2", guard_unguard_roots2 as fn()),
        ("guard_unguard_roots3", guard_unguard_roots3 as fn()),
        ("space_create_guard_fresh", space_create_guard_fresh as fn()),
        ("guard_pool_k0_n2", guard_pool_k0_n2 as fn()),
        ("guard_pool_k15_n1", guard_pool_k15_n1 as fn()),
        ("guard_pool_k16_n1", guard_pool_k16_n1 as fn()),
    ]);
}
