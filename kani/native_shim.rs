// Native stand-in for the `kani` crate, used only to REPLAY a Kani counterexample against the real
// code with `cargo test`: kani::any() pops the concrete byte vectors Kani printed (concrete playback),
// kani::assume panics if the replayed values do not meet the precondition, assert! is the real assert.
#![allow(dead_code)]
use std::cell::RefCell;
use std::collections::VecDeque;

thread_local! {
    static VALS: RefCell<VecDeque<Vec<u8>>> = RefCell::new(VecDeque::new());
}

pub fn load(v: Vec<Vec<u8>>) {
    VALS.with(|q| *q.borrow_mut() = v.into());
}

fn next_bytes(n: usize) -> Vec<u8> {
    let v = VALS.with(|q| q.borrow_mut().pop_front());
    match v {
        Some(b) if b.len() == n => b,
        Some(b) => panic!("VERIF-REPLAY-MISMATCH wanted {} bytes, counterexample has {}", n, b.len()),
        None => panic!("VERIF-REPLAY-EXHAUSTED"),
    }
}

pub trait Arb: Sized {
    fn arb() -> Self;
}
macro_rules! arb_int {
    ($($t:ty),*) => {$(
        impl Arb for $t {
            fn arb() -> Self {
                let b = next_bytes(core::mem::size_of::<$t>());
                let mut a = [0u8; core::mem::size_of::<$t>()];
                a.copy_from_slice(&b);
                <$t>::from_le_bytes(a)
            }
        }
    )*};
}
arb_int!(u8, u16, u32, u64, u128, usize, i8, i16, i32, i64, i128, isize);
impl Arb for bool {
    fn arb() -> Self {
        next_bytes(1)[0] != 0
    }
}
impl Arb for f64 {
    fn arb() -> Self {
        f64::from_bits(u64::arb())
    }
}
impl Arb for char {
    fn arb() -> Self {
        char::from_u32(u32::arb()).unwrap_or('\0')
    }
}
impl<T: Arb, const N: usize> Arb for [T; N] {
    fn arb() -> Self {
        core::array::from_fn(|_| T::arb())
    }
}

pub fn any<T: Arb>() -> T {
    T::arb()
}

pub fn assume(c: bool) {
    if !c {
        panic!("VERIF-ASSUME-VIOLATED");
    }
}

macro_rules! cover {
    ($($t:tt)*) => {};
}
pub(crate) use cover;

/// Entry point of a replay: VERIF_REPLAY_HARNESS=<name> VERIF_REPLAY_VALS="1,2;3;..." cargo test <entry>
pub fn replay_main(table: &[(&str, fn())]) {
    let name = std::env::var("VERIF_REPLAY_HARNESS").unwrap_or_default();
    let vals = std::env::var("VERIF_REPLAY_VALS").unwrap_or_default();
    let parsed: Vec<Vec<u8>> = vals
        .split(';')
        .filter(|s| !s.is_empty())
        .map(|s| s.split(',').filter(|x| !x.is_empty()).map(|x| x.trim().parse::<u8>().unwrap()).collect())
        .collect();
    for (n, f) in table {
        if *n == name {
            load(parsed);
            println!("VERIF-REPLAY running {} natively on the real code", n);
            f();
            println!("VERIF-REPLAY {} completed without assertion failure", n);
            return;
        }
    }
    println!("VERIF-REPLAY no harness named {:?}", name);
}
