// Kani contract for BytecodeChunk::get_source_location (src/compiler/bytecode.rs):
// result == span of the last entry whose bytecode_offset <= query, on any strictly increasing map.
// BOUNDED by the map length (one harness per length: 0,1,2,3 quick; 5,8 thorough): binary_search_by_key is std code over a Vec.
use super::*;

#[cfg(not(kani))]
#[path = "/verif/kani/native_shim.rs"]
mod kani;

// N is the (concrete) map length of one harness; offsets, spans and the query are symbolic.
fn srcmap_contract<const N: usize>() {
    let mut c = BytecodeChunk::new();
    c.source_map = Vec::with_capacity(N);
    let offs: [usize; N] = kani::any();
    let lines: [u32; N] = kani::any();
    let mut i = 0;
    while i < N {
        kani::assume(i == 0 || offs[i] > offs[i - 1]);
        c.source_map.push(SourceMapEntry { bytecode_offset: offs[i], span: Span::new(offs[i], offs[i], lines[i], 1) });
        i += 1;
    }
    let q: usize = kani::any();
    let r = c.get_source_location(q);
    // specification: linear scan from the end
    let mut expect: Option<Span> = None;
    let mut k = N;
    while k > 0 {
        k -= 1;
        if expect.is_none() && offs[k] <= q {
            expect = Some(Span::new(offs[k], offs[k], lines[k], 1));
        }
    }
    assert!(r == expect, "OBL bytecode_srcmap/BytecodeChunk::get_source_location/ensures#last_entry_at_or_before");
    kani::cover!(N == 0 || r.is_none(), "COVER query before first entry");
    kani::cover!(N < 2 || (r.is_some() && r != Some(Span::new(offs[N - 1], offs[N - 1], lines[N - 1], 1))), "COVER interior hit");
}

macro_rules! srcmap_harness {
    ($name:ident, $n:expr, $unwind:expr) => {
        #[cfg_attr(kani, kani::proof)]
        #[cfg_attr(kani, kani::unwind($unwind))]
        fn $name() {
            srcmap_contract::<$n>();
        }
    };
}
srcmap_harness!(srcmap_lookup_len0, 0, 3);
srcmap_harness!(srcmap_lookup_len1, 1, 4);
srcmap_harness!(srcmap_lookup_len2, 2, 5);
srcmap_harness!(srcmap_lookup_len3, 3, 6);
srcmap_harness!(srcmap_lookup_len5, 5, 8);
srcmap_harness!(srcmap_lookup_len8, 8, 11);

#[cfg(all(test, not(kani)))]
#[test]
fn verif_replay_bytecode_srcmap() {
    kani::replay_main(&[
        ("srcmap_lookup_len0", srcmap_lookup_len0 as fn()),
        ("srcmap_lookup_len1", srcmap_lookup_len1 as fn()),
        ("srcmap_lookup_len2", srcmap_lookup_len2 as fn()),
        ("srcmap_lookup_len3", srcmap_lookup_len3 as fn()),
        ("srcmap_lookup_len5", srcmap_lookup_len5 as fn()),
        ("srcmap_lookup_len8", srcmap_lookup_len8 as fn()),
    ]);
}
