// Kani contracts for the collector's mark bitmap (src/gc.rs), proved inside the real crate:
// this file is mounted as `mod verif_kani` at the end of src/gc.rs of a scratch copy, so `super::`
// is the real module and every call below runs the real (unsafe, unchecked) code.
//
// Contract style: kani::assume(<pre>); one call of the real function; assert!(<post>).  A universally
// quantified postcondition is stated through a fresh symbolic witness.  Every harness is loop-free or
// bounded by operand width with the unwinding assertion on, over the full input domain => complete.
use super::*;

#[cfg(not(kani))]
#[path = "/verif/kani/native_shim.rs"]
mod kani;

// independent specification of "bit i of the 256-bit mask": safe (checked) indexing, division and
// remainder for word/bit selection, the word shifted *down* to bit 0 (the code shifts a 1 *up*)
fn spec_get(bits: &[u64; 4], i: usize) -> bool {
    let w = i / 64;
    let b = (i % 64) as u32;
    (bits[w] >> b) % 2 == 1
}

fn any_mask() -> ChunkBitmask {
    ChunkBitmask { bits: kani::any() }
}

#[cfg_attr(kani, kani::proof)]
fn bitmask_get() {
    let m = any_mask();
    let i: usize = kani::any();
    kani::assume(i < 256);
    let r = m.get(i);
    assert!(r == spec_get(&m.bits, i), "OBL gc_bitmask/ChunkBitmask::get/ensures#reads_bit_i");
    kani::cover!(r, "COVER get true");
    kani::cover!(!r, "COVER get false");
}

#[cfg_attr(kani, kani::proof)]
fn bitmask_set() {
    let mut m = any_mask();
    let old = m.bits;
    let i: usize = kani::any();
    kani::assume(i < 256);
    m.set(i);
    assert!(spec_get(&m.bits, i), "OBL gc_bitmask/ChunkBitmask::set/ensures#bit_i_set");
    let j: usize = kani::any();
    kani::assume(j < 256 && j != i);
    assert!(spec_get(&m.bits, j) == spec_get(&old, j), "OBL gc_bitmask/ChunkBitmask::set/ensures#other_bits_unchanged");
    kani::cover!(i == 255, "COVER set last bit");
    kani::cover!(i == 64, "COVER set word boundary");
}

#[cfg_attr(kani, kani::proof)]
fn bitmask_clear() {
    let mut m = any_mask();
    m.clear();
    let j: usize = kani::any();
    kani::assume(j < 256);
    assert!(!spec_get(&m.bits, j), "OBL gc_bitmask/ChunkBitmask::clear/ensures#all_bits_clear");
    assert!(!m.get(j), "OBL gc_bitmask/ChunkBitmask::clear/ensures#get_false_after_clear");
    kani::cover!(true, "COVER clear reached");
}

#[cfg_attr(kani, kani::proof)]
fn bitmask_default_is_clear() {
    let m = ChunkBitmask::default();
    let j: usize = kani::any();
    kani::assume(j < 256);
    assert!(!spec_get(&m.bits, j), "OBL gc_bitmask/ChunkBitmask::default/ensures#all_bits_clear");
    kani::cover!(true, "COVER default reached");
}

// ---- iteration over unmarked bits ---------------------------------------------------------------
// Inv(it, m, len, pos): the iterator has consumed exactly the indices below `pos`.
fn inv(it: &UnmarkedIter<'_>, m: &ChunkBitmask, len: usize, pos: usize) -> bool {
    let w = it.current_word;
    if !(it.len == len && w < 4 && it.base_index == w * 64 && core::ptr::eq(it.bitmask, m)) {
        return false;
    }
    if !(pos >= it.base_index && pos <= it.base_index + 64) {
        return false;
    }
    // a word is entered only while its base is below len (word 0 is entered unconditionally)
    if !(w == 0 || it.base_index < len) {
        return false;
    }
    let k = pos - it.base_index; // bits below k of the current word are consumed
    let pending = if k >= 64 { 0 } else { (!m.bits[w]) & (u64::MAX << k) };
    it.current_bits == pending
}

#[cfg_attr(kani, kani::proof)]
fn bitmask_iter_unmarked_init() {
    let m = any_mask();
    let len: usize = kani::any();
    kani::assume(len <= 256);
    let it = m.iter_unmarked(len);
    // the opaque `impl Iterator` returned by iter_unmarked *is* an UnmarkedIter: read its state
    assert!(core::mem::size_of_val(&it) == core::mem::size_of::<UnmarkedIter<'_>>(),
            "OBL gc_bitmask/ChunkBitmask::iter_unmarked/ensures#returns_unmarked_iter");
    let st: UnmarkedIter<'_> = unsafe { core::mem::transmute_copy(&it) };
    assert!(inv(&st, &m, len, 0), "OBL gc_bitmask/ChunkBitmask::iter_unmarked/ensures#establishes_inv_at_0");
    kani::cover!(len == 256, "COVER init full chunk");
}

#[cfg_attr(kani, kani::proof)]
#[cfg_attr(kani, kani::unwind(7))]
fn bitmask_iter_next_step() {
    let m = any_mask();
    let len: usize = kani::any();
    kani::assume(len <= 256);
    let pos: usize = kani::any();
    let mut it = UnmarkedIter {
        bitmask: &m,
        len,
        current_word: kani::any(),
        current_bits: kani::any(),
        base_index: kani::any(),
    };
    kani::assume(inv(&it, &m, len, pos));
    let r = it.next();
    let k: usize = kani::any(); // witness for the quantified clauses
    match r {
        Some(i) => {
            assert!(pos <= i && i < len, "OBL gc_bitmask/UnmarkedIter::next/ensures#some_in_range");
            assert!(!spec_get(&m.bits, i), "OBL gc_bitmask/UnmarkedIter::next/ensures#some_is_unmarked");
            kani::assume(pos <= k && k < i);
            assert!(spec_get(&m.bits, k), "OBL gc_bitmask/UnmarkedIter::next/ensures#nothing_unmarked_skipped");
            assert!(inv(&it, &m, len, i + 1), "OBL gc_bitmask/UnmarkedIter::next/ensures#inv_at_i_plus_1");
            kani::cover!(i == 255, "COVER yields 255");
            kani::cover!(it.current_word == 3, "COVER reaches last word");
        }
        None => {
            kani::assume(pos <= k && k < len);
            assert!(spec_get(&m.bits, k), "OBL gc_bitmask/UnmarkedIter::next/ensures#none_means_rest_marked");
            kani::cover!(pos == 0 && len == 256, "COVER none on a fully marked chunk");
        }
    }
}

#[cfg_attr(kani, kani::proof)]
fn bitmask_index_coupling() {
    assert!(CHUNK_CAPACITY <= 256, "OBL gc_bitmask/CHUNK_CAPACITY/ensures#fits_bitmask");
    let x: usize = kani::any();
    assert!(x % CHUNK_CAPACITY < 256, "OBL gc_bitmask/CHUNK_CAPACITY/ensures#index_in_chunk_meets_get_set_precondition");
    kani::cover!(x % CHUNK_CAPACITY == 255, "COVER last slot");
}

#[cfg(all(test, not(kani)))]
#[test]
fn verif_replay_gc_bitmask() {
    kani::replay_main(&[
        ("bitmask_get", bitmask_get as fn()),
        ("bitmask_set", bitmask_set as fn()),
        ("bitmask_clear", bitmask_clear as fn()),
        ("bitmask_default_is_clear", bitmask_default_is_clear as fn()),
        ("bitmask_iter_unmarked_init", bitmask_iter_unmarked_init as fn()),
        ("bitmask_iter_next_step", bitmask_iter_next_step as fn()),
        ("bitmask_index_coupling", bitmask_index_coupling as fn()),
    ]);
}
