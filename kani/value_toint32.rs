// Kani contract for value::to_uint32 / value::to_int32 (src/value.rs): "conversions to 32-bit integers
// wrap modulo 2^32" for ALL 2^64 f64 bit patterns.  Loop-free harnesses over a fully symbolic f64 =>
// complete proofs, not bounded.  The specification is integer-only (decode sign / exponent / mantissa,
// shift in u128, keep the low 32 bits, negate modulo 2^32) and shares nothing with the implementation's
// route (`as i64` fast path + bit path); in particular no f64 `%`, which CBMC over-approximates.
use super::*;

#[cfg(not(kani))]
#[path = "/verif/kani/native_shim.rs"]
mod kani;

// ToUint32 per ECMA-262 7.1.7: 0 for NaN/±inf, else (sign * floor(abs(n))) modulo 2^32
fn spec_to_uint32(bits: u64) -> u32 {
    let neg = (bits >> 63) == 1;
    let e = ((bits >> 52) & 0x7ff) as i32;
    let frac = bits & ((1u64 << 52) - 1);
    if e == 0x7ff {
        return 0; // NaN, +inf, -inf
    }
    if e == 0 {
        return 0; // zero or subnormal: |n| < 1
    }
    let m = (frac | (1u64 << 52)) as u128; // |n| = m * 2^(e-1075), m < 2^53
    let sh = e - 1075;
    let low: u32 = if sh >= 0 {
        if sh >= 32 { 0 } else { ((m << (sh as u32)) & 0xffff_ffff) as u32 }
    } else if sh <= -53 {
        0 // m < 2^53, so m >> 53 or more is 0: |n| < 1
    } else {
        ((m >> ((-sh) as u32)) & 0xffff_ffff) as u32 // floor of the magnitude = truncation toward zero
    };
    if neg { low.wrapping_neg() } else { low }
}

#[cfg_attr(kani, kani::proof)]
fn to_uint32_contract() {
    let bits: u64 = kani::any();
    let n = f64::from_bits(bits);
    let r = to_uint32(n);
    assert!(r == spec_to_uint32(bits), "OBL value_toint32/to_uint32/ensures#truncate_then_wrap_mod_2_32");
    if !n.is_finite() {
        assert!(r == 0, "OBL value_toint32/to_uint32/ensures#non_finite_is_zero");
    }
    kani::cover!(n >= 9.3e18 && r != 0, "COVER huge magnitude with non-zero low bits");
    kani::cover!(n < -4294967296.0 && n > -1e15 && r == 5, "COVER negative wrap");
    kani::cover!(n == 4294967301.0, "COVER 2^32+5");
}

#[cfg_attr(kani, kani::proof)]
fn to_int32_contract() {
    let bits: u64 = kani::any();
    let n = f64::from_bits(bits);
    let r = to_int32(n);
    assert!(r == spec_to_uint32(bits) as i32, "OBL value_toint32/to_int32/ensures#truncate_then_wrap_mod_2_32_signed");
    // the statement of the property in integer terms, for the range where i64 holds trunc(n) exactly
    if n > -9.0e18 && n < 9.0e18 {
        let t = n as i64; // exact truncation in this range (Rust `as` saturates only beyond i64)
        assert!((t - r as i64) % 4294967296 == 0, "OBL value_toint32/to_int32/ensures#congruent_mod_2_32");
    }
    kani::cover!(r == i32::MIN, "COVER result i32::MIN");
    kani::cover!(n == 2147483648.0 && r == i32::MIN, "COVER 2^31 wraps to -2^31");
}

#[cfg(all(test, not(kani)))]
#[test]
fn verif_replay_value_toint32() {
    kani::replay_main(&[
        ("to_uint32_contract", to_uint32_contract as fn()),
        ("to_int32_contract", to_int32_contract as fn()),
    ]);
}
