// Kani contracts for the lexer's position bookkeeping (src/lexer.rs): advance, make_span,
// checkpoint/restore.  Mounted inside the real module, so private fields are visible.
use super::*;

#[cfg(not(kani))]
#[path = "/verif/kani/native_shim.rs"]
mod kani;

fn any_char() -> char {
    let c: u32 = kani::any();
    kani::assume(c <= 0x10FFFF && !(0xD800..=0xDFFF).contains(&c));
    match char::from_u32(c) {
        Some(ch) => ch,
        None => 'x',
    }
}

// advance(): for EVERY Unicode scalar value as the next character and every (line, column, base offset)
#[cfg_attr(kani, kani::proof)]
#[cfg_attr(kani, kani::unwind(6))]
fn lexer_advance_contract() {
    let ch = any_char();
    let mut buf = [0u8; 4];
    let s: &str = ch.encode_utf8(&mut buf);
    let mut dict = StringDict::new();
    let mut lx = Lexer::new(s, &mut dict);
    let base: usize = kani::any();
    let line: u32 = kani::any();
    let column: u32 = kani::any();
    // recorded assumption: fewer than 2^32 lines / columns, positions below 2^62
    kani::assume(line < u32::MAX && column < u32::MAX && base < (1usize << 62));
    lx.chars_base_offset = base;
    lx.current_pos = base;
    lx.line = line;
    lx.column = column;
    let r = lx.advance();
    assert!(r == Some((0, ch)), "OBL lexer_pos/Lexer::advance/ensures#returns_next_char");
    assert!(lx.current_pos == base + ch.len_utf8(), "OBL lexer_pos/Lexer::advance/ensures#pos_advances_by_len_utf8");
    let terminator = ch == '\n' || ch == '\u{2028}' || ch == '\u{2029}';
    if terminator {
        assert!(lx.line == line + 1 && lx.column == 1, "OBL lexer_pos/Lexer::advance/ensures#terminator_starts_new_line");
    } else {
        assert!(lx.line == line && lx.column == column + 1, "OBL lexer_pos/Lexer::advance/ensures#other_char_advances_column");
    }
    // at end of input: None and no position change
    let before = (lx.current_pos, lx.line, lx.column);
    let r2 = lx.advance();
    assert!(r2.is_none() && before == (lx.current_pos, lx.line, lx.column),
            "OBL lexer_pos/Lexer::advance/ensures#none_at_end_changes_nothing");
    kani::cover!(ch == '\u{2028}', "COVER LS");
    kani::cover!(ch.len_utf8() == 4, "COVER 4-byte char");
    kani::cover!(ch == '\r', "COVER CR");
}

#[cfg_attr(kani, kani::proof)]
fn lexer_make_span_contract() {
    let mut dict = StringDict::new();
    let mut lx = Lexer::new("", &mut dict);
    lx.start_pos = kani::any();
    lx.current_pos = kani::any();
    lx.start_line = kani::any();
    lx.start_column = kani::any();
    lx.line = kani::any();
    lx.column = kani::any();
    let sp = lx.make_span();
    assert!(sp.start == lx.start_pos && sp.end == lx.current_pos, "OBL lexer_pos/Lexer::make_span/ensures#byte_range");
    assert!(sp.line == lx.start_line && sp.column == lx.start_column, "OBL lexer_pos/Lexer::make_span/ensures#line_col_of_token_start");
    kani::cover!(sp.line != lx.line, "COVER token spanning lines");
}

// checkpoint()/restore(): all seven position fields come back and the character iterator is
// re-positioned at current_pos.  BOUNDED: source <= 2 characters (each any scalar value).
#[cfg_attr(kani, kani::proof)]
#[cfg_attr(kani, kani::unwind(10))]
fn lexer_checkpoint_restore_contract() {
    let c1 = any_char();
    let c2 = any_char();
    let mut buf = [0u8; 8];
    let n1 = c1.encode_utf8(&mut buf[..4]).len();
    let mut tmp = [0u8; 4];
    let e2 = c2.encode_utf8(&mut tmp);
    let n2 = e2.len();
    let mut i = 0;
    while i < 4 {
        if i < n2 {
            buf[n1 + i] = tmp[i];
        }
        i += 1;
    }
    let s = match core::str::from_utf8(&buf[..n1 + n2]) {
        Ok(s) => s,
        Err(_) => "",
    };
    let mut dict = StringDict::new();
    let mut lx = Lexer::new(s, &mut dict);
    let steps: u8 = kani::any();
    kani::assume(steps <= 2);
    if steps >= 1 {
        lx.advance();
    }
    lx.start_pos = kani::any();
    lx.start_line = kani::any();
    lx.start_column = kani::any();
    lx.saw_newline = kani::any();
    let cp = lx.checkpoint();
    let snap = (lx.current_pos, lx.line, lx.column, lx.start_pos, lx.start_line, lx.start_column, lx.saw_newline);
    if steps >= 2 {
        lx.advance();
    }
    lx.start_pos = kani::any();
    lx.start_line = kani::any();
    lx.start_column = kani::any();
    lx.saw_newline = kani::any();
    lx.restore(cp);
    let now = (lx.current_pos, lx.line, lx.column, lx.start_pos, lx.start_line, lx.start_column, lx.saw_newline);
    assert!(now == snap, "OBL lexer_pos/Lexer::restore/ensures#all_position_fields_restored");
    // the iterator resumes exactly at current_pos: next advance yields the char that lives there
    let pos = lx.current_pos;
    let r = lx.advance();
    if pos == 0 {
        assert!(r == Some((0, c1)) && lx.current_pos == n1, "OBL lexer_pos/Lexer::restore/ensures#iterator_resumes_at_current_pos");
    } else {
        assert!(pos == n1, "OBL lexer_pos/Lexer::restore/ensures#checkpoint_pos_is_char_boundary");
        assert!(r.map(|x| x.1) == Some(c2) && lx.current_pos == n1 + n2, "OBL lexer_pos/Lexer::restore/ensures#iterator_resumes_mid_source");
    }
    kani::cover!(steps == 2 && pos == n1, "COVER rewind one char after advancing two");
}

#[cfg(all(test, not(kani)))]
#[test]
fn verif_replay_lexer_pos() {
    kani::replay_main(&[
        ("lexer_advance_contract", lexer_advance_contract as fn()),
        ("lexer_make_span_contract", lexer_make_span_contract as fn()),
        ("lexer_checkpoint_restore_contract", lexer_checkpoint_restore_contract as fn()),
    ]);
}

// ---- position resets used by the parser's re-scans ------------------------------------------------
// independent reference: walk `s[from..to]` character by character from (line, col)
fn walk(s: &str, from: usize, to: usize, mut line: u32, mut col: u32) -> (u32, u32) {
    let bytes = s.as_bytes();
    let mut i = from;
    while i < to && i < bytes.len() {
        let b = bytes[i];
        // lead byte -> scalar length; LS/PS are E2 80 A8 / E2 80 A9
        let n = if b < 0x80 { 1 } else if b < 0xE0 { 2 } else if b < 0xF0 { 3 } else { 4 };
        let is_term = b == b'\n' || (n == 3 && i + 2 < bytes.len() && b == 0xE2 && bytes[i + 1] == 0x80 && (bytes[i + 2] == 0xA8 || bytes[i + 2] == 0xA9));
        if is_term {
            line += 1;
            col = 1;
        } else {
            col += 1;
        }
        i += n;
    }
    (line, col)
}

// rescan_template_continuation(span of a `}` token): scanning resumes right after the brace, one column
// further on the same line, and the final position is consistent with the characters consumed.
// BOUNDED: source = "}" c "`" with c any Unicode scalar value (the continuation ends at the back-tick).
#[cfg_attr(kani, kani::proof)]
#[cfg_attr(kani, kani::unwind(8))]
fn lexer_rescan_template_contract() {
    let c = any_char();
    kani::assume(c != '`' && c != '\\' && c != '$');
    let mut buf = [0u8; 6];
    buf[0] = b'}';
    let n = c.encode_utf8(&mut buf[1..5]).len();
    buf[1 + n] = b'`';
    let s = match core::str::from_utf8(&buf[..n + 2]) {
        Ok(s) => s,
        Err(_) => "}`",
    };
    let mut dict = StringDict::new();
    let mut lx = Lexer::new(s, &mut dict);
    let line: u32 = kani::any();
    let column: u32 = kani::any();
    kani::assume(line < u32::MAX - 2 && column < u32::MAX - 4);
    let span = Span::new(0, 1, line, column);
    let _kind = lx.rescan_template_continuation(span);
    let want = walk(s, 1, lx.current_pos, line, column + 1);
    assert!(lx.current_pos == n + 2, "OBL lexer_pos/Lexer::rescan_template_continuation/ensures#consumes_through_backtick");
    assert!((lx.line, lx.column) == want, "OBL lexer_pos/Lexer::rescan_template_continuation/ensures#line_column_consistent_with_consumed_text");
    kani::cover!(c == '\n', "COVER newline inside the continuation");
    kani::cover!(c.len_utf8() == 3, "COVER 3-byte char inside the continuation");
}
