// Native oracle for the `modpath` Verus unit (C18): the contract clauses of contracts/modpath.spec as
// executable checks against an independent reference implementation, run on the REAL ModulePath code
// (mounted as a #[cfg(test)] child module of src/lib.rs in a scratch copy).
//   VERIF-ORACLE-FAIL obligation=<name> <input>
//   VERIF-ORACLE-DONE cases=<n>
use super::ModulePath;
use std::collections::BTreeSet;

// ---- reference: character-level, no str::split / join / format! --------------------------------
fn ref_split(p: &str) -> Vec<String> {
    let mut out = vec![String::new()];
    for ch in p.chars() {
        if ch == '/' {
            out.push(String::new());
        } else {
            out.last_mut().unwrap().push(ch);
        }
    }
    out
}
fn ref_canon(segs: &[String]) -> Vec<String> {
    let mut st: Vec<String> = Vec::new();
    for s in segs {
        if s.is_empty() || s == "." {
        } else if s == ".." {
            st.pop();
        } else {
            st.push(s.clone());
        }
    }
    st
}
fn ref_render(abs: bool, segs: &[String]) -> String {
    let mut r = String::new();
    if abs {
        r.push('/');
    }
    for (i, s) in segs.iter().enumerate() {
        if i > 0 {
            r.push('/');
        }
        r.push_str(s);
    }
    r
}
fn ref_norm(p: &str) -> String {
    ref_render(p.chars().next() == Some('/'), &ref_canon(&ref_split(p)))
}
fn ref_before_last_slash(b: &str) -> Option<String> {
    let cs: Vec<char> = b.chars().collect();
    let mut i = cs.len();
    while i > 0 {
        i -= 1;
        if cs[i] == '/' {
            return Some(cs[..i].iter().collect());
        }
    }
    None
}
fn ref_is_relative(s: &str) -> bool {
    let c: Vec<char> = s.chars().collect();
    (c.len() >= 2 && c[0] == '.' && c[1] == '/') || (c.len() >= 3 && c[0] == '.' && c[1] == '.' && c[2] == '/')
}
fn ref_is_abs(s: &str) -> bool {
    s.chars().next() == Some('/')
}
fn ref_resolve(spec: &str, base: Option<&str>) -> String {
    if !ref_is_abs(spec) && !ref_is_relative(spec) {
        return spec.to_string();
    }
    if ref_is_abs(spec) {
        return ref_norm(spec);
    }
    match base.and_then(ref_before_last_slash) {
        Some(d) => ref_norm(&format!("{}/{}", d, spec)),
        None => ref_norm(spec),
    }
}

struct Report {
    seen: BTreeSet<String>,
}
impl Report {
    fn fail(&mut self, name: &str, input: &str) {
        if self.seen.insert(name.to_string()) {
            println!("VERIF-ORACLE-FAIL obligation=modpath/ModulePath::{} {}", name, input);
        }
    }
}

fn check_pair(rep: &mut Report, spec: &str, base: Option<&str>) {
    let b = base.map(ModulePath::new);
    let got = ModulePath::resolve(spec, b.as_ref());
    let got = got.as_str().to_string();
    let input = format!("resolve({:?}, {:?}) -> {:?}", spec, base, got);
    let want = ref_resolve(spec, base);
    let bare = !ref_is_abs(spec) && !ref_is_relative(spec);
    if bare {
        if got != spec { rep.fail("resolve/ensures#bare_untouched", &input); }
        return;
    }
    if ref_is_abs(spec) {
        if got != want { rep.fail("resolve/ensures#absolute_specifier_normalized", &format!("{} want {:?}", input, want)); }
    } else if got != want {
        rep.fail("resolve/ensures#relative_joined_to_importer_dir", &format!("{} want {:?}", input, want));
    }
    if let Some(bs) = base {
        if ref_is_abs(bs) && !ref_is_abs(&got) {
            rep.fail("resolve/ensures#absolute_importer_gives_absolute_result", &input);
        }
        if ref_is_abs(bs) || ref_is_abs(spec) {
            // canonical shape of an absolute result
            let segs = ref_split(&got);
            let bad = got != "/" && segs.iter().skip(1).any(|s| s.is_empty() || s == "." || s == "..");
            if bad || (got.len() > 1 && got.ends_with('/')) {
                rep.fail("resolve/ensures#result_is_canonical", &input);
            }
            // resolving the result again changes nothing
            let again = ModulePath::resolve(&got, b.as_ref());
            if again.as_str() != got {
                rep.fail("resolve/ensures#idempotent", &format!("{} then {:?}", input, again.as_str()));
            }
        }
    }
    // helper contracts
    if ModulePath::is_relative(spec) != ref_is_relative(spec) { rep.fail("is_relative/ensures#eq", &input); }
    if ModulePath::is_bare(spec) != bare { rep.fail("is_bare/ensures#eq", &input); }
    if let Some(bm) = &b {
        let p = bm.parent().map(|s| s.to_string());
        if p != ref_before_last_slash(bm.as_str()) { rep.fail("parent/ensures#before_last_slash", &format!("parent({:?}) -> {:?}", bm.as_str(), p)); }
    }
}

fn paths_over(alpha: &[&str], max_segs: usize, out: &mut Vec<String>) {
    // all sequences of 1..=max_segs segments, with and without leading / trailing slash
    let mut cur: Vec<Vec<&str>> = vec![vec![]];
    for _ in 0..max_segs {
        let mut next = Vec::new();
        for c in &cur {
            for a in alpha {
                let mut n = c.clone();
                n.push(*a);
                next.push(n);
            }
        }
        for n in &next {
            let j = n.join("/");
            out.push(j.clone());
            out.push(format!("/{}", j));
            out.push(format!("{}/", j));
        }
        cur = next;
    }
}

struct Rng(u64);
impl Rng {
    fn next(&mut self) -> u64 {
        self.0 = self.0.wrapping_add(0x9E3779B97F4A7C15);
        let mut z = self.0;
        z = (z ^ (z >> 30)).wrapping_mul(0xBF58476D1CE4E5B9);
        z = (z ^ (z >> 27)).wrapping_mul(0x94D049BB133111EB);
        z ^ (z >> 31)
    }
}

// Bounded cross-check of the TRUSTED wrapper contracts of the Verus unit (rules R1-R6): the std call each
// wrapper's body consists of must agree with the executable counterpart of its spec function, for every
// string of length <= 6 over {'/', '.', 'a', e-acute}.
fn wrapper_contracts(rep: &mut Report, cases: &mut usize) {
    let alpha = ['/', '.', 'a', '\u{e9}'];
    let mut all: Vec<String> = vec![String::new()];
    let mut frontier: Vec<String> = vec![String::new()];
    for _ in 0..6 {
        let mut next = Vec::new();
        for s in &frontier {
            for c in alpha {
                let mut t = s.clone();
                t.push(c);
                next.push(t);
            }
        }
        all.extend(next.iter().cloned());
        frontier = next;
    }
    for s in &all {
        *cases += 1;
        // R1: E.split('/') == split spec (char-level reference)
        let std_split: Vec<&str> = s.split('/').collect();
        let rs = ref_split(s);
        if std_split.len() != rs.len() || std_split.iter().zip(rs.iter()).any(|(a, b)| *a != b.as_str()) {
            rep.fail("wrapper/R1_split_contract", &format!("split({:?}) std={:?} spec={:?}", s, std_split, rs));
        }
        // R2: V.join("/") == join spec; split o join == identity on the parts
        let joined = std_split.join("/");
        if &joined != s {
            rep.fail("wrapper/R2_join_contract", &format!("join(split({:?})) = {:?}", s, joined));
        }
        // R4: starts_with char / str == prefix test
        if s.starts_with('/') != (s.chars().next() == Some('/')) {
            rep.fail("wrapper/R4_starts_with_char_contract", s);
        }
        for p in ["./", "../"] {
            let pc: Vec<char> = p.chars().collect();
            let sc: Vec<char> = s.chars().collect();
            let want = sc.len() >= pc.len() && sc[..pc.len()] == pc[..];
            if s.starts_with(p) != want {
                rep.fail("wrapper/R4_starts_with_str_contract", &format!("{:?}.starts_with({:?})", s, p));
            }
        }
        // R5: rfind + get(..idx) == text before the last '/'
        let std_before: Option<&str> = s.rfind('/').and_then(|idx| s.get(..idx));
        if std_before.map(|x| x.to_string()) != ref_before_last_slash(s) {
            rep.fail("wrapper/R5_before_last_contract", &format!("{:?}: std={:?} spec={:?}", s, std_before, ref_before_last_slash(s)));
        }
        // R3 / R6: format! of &str pieces is concatenation, to_string is identity
        let f2 = format!("/{}", s);
        let f3 = format!("{}/{}", s, "x");
        if f2.chars().collect::<Vec<_>>() != std::iter::once('/').chain(s.chars()).collect::<Vec<_>>()
            || f3 != [s.as_str(), "/", "x"].concat() || s.to_string() != *s {
            rep.fail("wrapper/R3_R6_concat_contract", s);
        }
    }
}

#[test]
fn verif_oracle_modpath() {
    let seed: u64 = std::env::var("VERIF_SEED").ok().and_then(|s| s.parse().ok()).unwrap_or(0);
    let iters: usize = std::env::var("VERIF_ITERS").ok().and_then(|s| s.parse().ok()).unwrap_or(2000);
    let mut rep = Report { seen: BTreeSet::new() };
    let alpha = ["", ".", "..", "a", "b", "..a", "a.ts"];
    let mut specs = Vec::new();
    paths_over(&alpha, 3, &mut specs);
    let mut bases = Vec::new();
    paths_over(&alpha, 2, &mut bases);
    bases.push("/main.ts".to_string());
    bases.push("main.ts".to_string());
    bases.push("/".to_string());
    bases.push(String::new());
    let mut cases = 0usize;
    wrapper_contracts(&mut rep, &mut cases);
    for s in &specs {
        check_pair(&mut rep, s, None);
        cases += 1;
        for b in &bases {
            check_pair(&mut rep, s, Some(b));
            cases += 1;
        }
    }
    // random longer paths (up to 7 segments, non-ASCII segment included)
    let alpha2 = ["", ".", "..", "a", "b", "..a", "a.ts", "\u{e9}t\u{e9}", "...", "a..", ". "];
    let mut rng = Rng(seed ^ 0xC18);
    for _ in 0..iters {
        let mk = |rng: &mut Rng| {
            let n = 1 + (rng.next() % 7) as usize;
            let mut p = String::new();
            if rng.next() % 2 == 0 { p.push('/'); }
            for i in 0..n {
                if i > 0 { p.push('/'); }
                p.push_str(alpha2[(rng.next() % alpha2.len() as u64) as usize]);
            }
            if rng.next() % 4 == 0 { p.push('/'); }
            p
        };
        let s = mk(&mut rng);
        let b = mk(&mut rng);
        check_pair(&mut rep, &s, Some(&b));
        // also force the relative forms
        check_pair(&mut rep, &format!("./{}", s.trim_start_matches('/')), Some(&b));
        check_pair(&mut rep, &format!("../{}", s.trim_start_matches('/')), Some(&b));
        cases += 3;
    }
    println!("VERIF-ORACLE-DONE cases={}", cases);
}
