// Native oracle for the `builder` Verus unit: the contract clauses of contracts/builder.spec written as
// executable checks against an explicit model, run on the REAL code (this file is mounted as a
// #[cfg(test)] child module of src/compiler/builder.rs in a scratch copy).  Verus gives no
// counterexample; when one of its obligations fails, this searches seeded random + boundary-directed
// operation sequences for a concrete failing input.  Output protocol (parsed by check.py):
//   VERIF-ORACLE-FAIL obligation=<name> <operation trace / input>
//   VERIF-ORACLE-DONE cases=<n>
use super::*;
use std::collections::BTreeSet;

struct Rng(u64);
impl Rng {
    fn next(&mut self) -> u64 {
        // splitmix64
        self.0 = self.0.wrapping_add(0x9E3779B97F4A7C15);
        let mut z = self.0;
        z = (z ^ (z >> 30)).wrapping_mul(0xBF58476D1CE4E5B9);
        z = (z ^ (z >> 27)).wrapping_mul(0x94D049BB133111EB);
        z ^ (z >> 31)
    }
    fn below(&mut self, n: u64) -> u64 {
        if n == 0 { 0 } else { self.next() % n }
    }
}

struct Report {
    seen: BTreeSet<String>,
}
impl Report {
    fn fail(&mut self, name: &str, input: &str) {
        if self.seen.insert(name.to_string()) {
            println!("VERIF-ORACLE-FAIL obligation={} {}", name, input);
        }
    }
}

#[derive(Clone, PartialEq, Debug)]
struct Snap {
    next: u8,
    max_used: u8,
    saved: Vec<u8>,
    free_list: Vec<u8>,
}
fn snap(a: &RegisterAllocator) -> Snap {
    Snap { next: a.next, max_used: a.max_used, saved: a.saved.clone(), free_list: a.free_list.clone() }
}
fn allocated(s: &Snap) -> Vec<bool> {
    (0..=255u16).map(|r| (r as u8) < s.next && r < 256 && !s.free_list.contains(&(r as u8))).collect()
}
fn wf(s: &Snap) -> bool {
    if s.max_used < s.next {
        return false;
    }
    for (i, x) in s.free_list.iter().enumerate() {
        if *x >= s.next || s.free_list[i + 1..].contains(x) {
            return false;
        }
    }
    s.saved.iter().all(|p| *p <= s.max_used)
}

const A: &str = "builder/RegisterAllocator::";

fn allocator_sequence(rng: &mut Rng, rep: &mut Report, len: usize) {
    let mut a = RegisterAllocator::new();
    let mut trace = String::from("ops:");
    let n0 = snap(&a);
    if !wf(&n0) || allocated(&n0).iter().any(|b| *b) {
        rep.fail(&format!("{}new/ensures#wf", A), "new()");
    }
    let directed = rng.below(10) < 4;
    for step in 0..len {
        let old = snap(&a);
        let oa = allocated(&old);
        let choice = if directed && step == 0 { 6 } else { rng.below(10) };
        match choice {
            0..=3 => {
                let r = a.alloc();
                trace.push_str(&format!(" alloc->{:?}", r.as_ref().ok()));
                let new = snap(&a);
                let na = allocated(&new);
                let p = format!("{}alloc/ensures#", A);
                if !wf(&new) { rep.fail(&format!("{}wf", p), &trace); }
                if new.max_used < old.max_used { rep.fail(&format!("{}max_monotone", p), &trace); }
                if new.saved != old.saved { rep.fail(&format!("{}saved_frame", p), &trace); }
                match r {
                    Ok(reg) => {
                        if oa[reg as usize] { rep.fail(&format!("{}ok_fresh", p), &trace); }
                        let mut exp = oa.clone();
                        exp[reg as usize] = true;
                        if na != exp { rep.fail(&format!("{}ok_view", p), &trace); }
                        if reg >= 255 { rep.fail(&format!("{}ok_below_limit", p), &trace); }
                        if reg >= new.max_used { rep.fail(&format!("{}ok_counted", p), &trace); }
                    }
                    Err(_) => {
                        if (0..255usize).any(|x| !oa[x]) { rep.fail(&format!("{}err_only_when_full", p), &trace); }
                        if new != old { rep.fail(&format!("{}err_unchanged", p), &trace); }
                    }
                }
            }
            4..=5 => {
                // free an owned register (precondition of the contract)
                let owned: Vec<u8> = (0..=255u16).filter(|r| oa[*r as usize]).map(|r| r as u8).collect();
                if owned.is_empty() { continue; }
                // bias towards the most recently allocated one (the contiguous case)
                let r = if rng.below(2) == 0 { owned[owned.len() - 1] } else { owned[rng.below(owned.len() as u64) as usize] };
                a.free(r);
                trace.push_str(&format!(" free({})", r));
                let new = snap(&a);
                let p = format!("{}free/ensures#", A);
                if !wf(&new) { rep.fail(&format!("{}wf", p), &trace); }
                let mut exp = oa.clone();
                exp[r as usize] = false;
                if allocated(&new) != exp { rep.fail(&format!("{}view", p), &trace); }
                if new.max_used != old.max_used { rep.fail(&format!("{}max_same", p), &trace); }
                if new.saved != old.saved { rep.fail(&format!("{}saved_frame", p), &trace); }
            }
            6..=7 => {
                let count: u8 = if directed && step == 0 {
                    (236 + rng.below(20)) as u8
                } else if rng.below(4) == 0 {
                    // aim at the limit
                    let room = 255u16.saturating_sub(old.next as u16);
                    (room as i64 + rng.below(3) as i64 - 1).clamp(0, 255) as u8
                } else {
                    rng.below(12) as u8
                };
                let r = a.reserve_range(count);
                trace.push_str(&format!(" reserve_range({})->{:?}", count, r.as_ref().ok()));
                let new = snap(&a);
                let na = allocated(&new);
                let p = format!("{}reserve_range/ensures#", A);
                if !wf(&new) { rep.fail(&format!("{}wf", p), &trace); }
                if new.max_used < old.max_used { rep.fail(&format!("{}max_monotone", p), &trace); }
                if new.saved != old.saved { rep.fail(&format!("{}saved_frame", p), &trace); }
                match r {
                    Ok(s) => {
                        let (s, c) = (s as usize, count as usize);
                        if s + c > 255 { rep.fail(&format!("{}ok_fits", p), &trace); }
                        if (s..(s + c).min(256)).any(|x| oa[x]) { rep.fail(&format!("{}ok_fresh", p), &trace); }
                        let mut exp = oa.clone();
                        for x in s..(s + c).min(256) { exp[x] = true; }
                        if na != exp { rep.fail(&format!("{}ok_view", p), &trace); }
                        if s + c > new.max_used as usize { rep.fail(&format!("{}ok_counted", p), &trace); }
                    }
                    Err(_) => {
                        if old.next as usize + count as usize <= 255 { rep.fail(&format!("{}err_only_when_no_room", p), &trace); }
                        if new != old { rep.fail(&format!("{}err_unchanged", p), &trace); }
                    }
                }
            }
            8 => {
                a.save();
                trace.push_str(" save");
                let new = snap(&a);
                let p = format!("{}save/ensures#", A);
                if !wf(&new) { rep.fail(&format!("{}wf", p), &trace); }
                let mut exp = old.saved.clone();
                exp.push(old.next);
                if new.saved != exp { rep.fail(&format!("{}pushed", p), &trace); }
                if new.next != old.next || new.max_used != old.max_used || new.free_list != old.free_list {
                    rep.fail(&format!("{}rest", p), &trace);
                }
            }
            _ => {
                a.restore();
                trace.push_str(" restore");
                let new = snap(&a);
                let p = format!("{}restore/ensures#", A);
                if !wf(&new) { rep.fail(&format!("{}wf", p), &trace); }
                if new.max_used != old.max_used { rep.fail(&format!("{}max_same", p), &trace); }
                match old.saved.last() {
                    None => { if new != old { rep.fail(&format!("{}empty_noop", p), &trace); } }
                    Some(pos) => {
                        if new.next != *pos { rep.fail(&format!("{}next", p), &trace); }
                        if new.saved[..] != old.saved[..old.saved.len() - 1] { rep.fail(&format!("{}saved", p), &trace); }
                        let exp: Vec<u8> = old.free_list.iter().copied().filter(|x| x < pos).collect();
                        if new.free_list != exp { rep.fail(&format!("{}free_filtered", p), &trace); }
                    }
                }
            }
        }
        if a.max_used() != a.max_used { rep.fail(&format!("{}max_used/ensures#eq", A), &trace); }
        if a.current() != a.next { rep.fail(&format!("{}current/ensures#eq", A), &trace); }
    }
}

const B: &str = "builder/BytecodeBuilder::";

fn lookup(sm: &[SourceMapEntry], i: usize) -> Option<Span> {
    let mut r = None;
    for e in sm {
        if e.bytecode_offset <= i { r = Some(e.span); }
    }
    r
}
fn sm_wf(sm: &[SourceMapEntry], n: usize) -> bool {
    sm.windows(2).all(|w| w[0].bytecode_offset < w[1].bytecode_offset) && sm.iter().all(|e| e.bytecode_offset < n)
}
fn op_eq(a: &Op, b: &Op) -> bool {
    format!("{:?}", a) == format!("{:?}", b)
}

fn builder_sequence(rng: &mut Rng, rep: &mut Report, len: usize) {
    let mut b = BytecodeBuilder::new();
    let mut trace = String::from("ops:");
    // model: the span start each instruction must map to (None = no entry at or before it)
    let mut want: Vec<Option<usize>> = Vec::new();
    let mut placeholders: Vec<JumpPlaceholder> = Vec::new();
    for _ in 0..len {
        let old_code: Vec<Op> = b.code.clone();
        let old_sm: Vec<SourceMapEntry> = b.source_map.clone();
        let old_span = b.current_span;
        let old_regs = snap(&b.registers);
        let old_nconst = b.constants.len();
        let choice = rng.below(12);
        let mut emitted: Option<(&str, Op)> = None;
        match choice {
            0..=1 => {
                // spans with equal starts but different ends / lines, and non-monotone starts
                let start = rng.below(6) as usize * 3;
                let sp = Span::new(start, start + 1 + rng.below(4) as usize, 1 + rng.below(5) as u32, 1 + rng.below(9) as u32);
                b.set_span(sp);
                trace.push_str(&format!(" set_span({},{})", sp.start, sp.end));
                if b.current_span != Some(sp) { rep.fail(&format!("{}set_span/ensures#set", B), &trace); }
                if b.source_map.len() != old_sm.len() || b.code.len() != old_code.len() { rep.fail(&format!("{}set_span/ensures#frame", B), &trace); }
                continue;
            }
            2 => {
                b.clear_span();
                trace.push_str(" clear_span");
                if b.current_span.is_some() { rep.fail(&format!("{}clear_span/ensures#cleared", B), &trace); }
                continue;
            }
            3..=4 => {
                let op = Op::LoadInt { dst: rng.below(8) as u8, value: rng.below(100) as i32 };
                let idx = b.emit(op);
                trace.push_str(&format!(" emit->{}", idx));
                if idx != old_code.len() { rep.fail(&format!("{}emit/ensures#index", B), &trace); }
                emitted = Some(("emit", op));
            }
            5 => {
                let p = b.emit_jump();
                trace.push_str(&format!(" emit_jump->{}", p.instruction_index));
                if p.instruction_index != old_code.len() { rep.fail(&format!("{}emit_jump/ensures#placeholder", B), &trace); }
                placeholders.push(p);
                emitted = Some(("emit_jump", Op::Jump { target: 0 }));
            }
            6 => {
                let c = rng.below(8) as u8;
                let which = rng.below(4);
                let (name, p, op) = match which {
                    0 => ("emit_jump_if_true", b.emit_jump_if_true(c), Op::JumpIfTrue { cond: c, target: 0 }),
                    1 => ("emit_jump_if_false", b.emit_jump_if_false(c), Op::JumpIfFalse { cond: c, target: 0 }),
                    2 => ("emit_jump_if_nullish", b.emit_jump_if_nullish(c), Op::JumpIfNullish { cond: c, target: 0 }),
                    _ => ("emit_jump_if_not_nullish", b.emit_jump_if_not_nullish(c), Op::JumpIfNotNullish { cond: c, target: 0 }),
                };
                trace.push_str(&format!(" {}->{}", name, p.instruction_index));
                if p.instruction_index != old_code.len() { rep.fail(&format!("{}{}/ensures#placeholder", B, name), &trace); }
                placeholders.push(p);
                emitted = Some((name, op));
            }
            7 => {
                let t = rng.below(1000) as usize;
                b.emit_jump_to(t);
                trace.push_str(&format!(" emit_jump_to({})", t));
                emitted = Some(("emit_jump_to", Op::Jump { target: t as u32 }));
            }
            8 => {
                if let Some(p) = placeholders.pop() {
                    b.patch_jump(p);
                    trace.push_str(&format!(" patch_jump({})", p.instruction_index));
                    let ok = b.code.len() == old_code.len()
                        && b.code.iter().zip(old_code.iter()).enumerate().all(|(j, (n, o))| {
                            if j == p.instruction_index {
                                format!("{:?}", n).contains(&format!("target: {}", old_code.len()))
                            } else {
                                op_eq(n, o)
                            }
                        });
                    if !ok { rep.fail(&format!("{}patch_jump/ensures#no_truncation", B), &trace); }
                    if b.source_map.len() != old_sm.len() { rep.fail(&format!("{}patch_jump/ensures#frame", B), &trace); }
                }
                continue;
            }
            9 => {
                b.emit_halt();
                trace.push_str(" emit_halt");
                emitted = Some(("emit_halt", Op::Halt));
            }
            10 => {
                let r = b.add_constant(Constant::Number(rng.below(1000) as f64));
                trace.push_str(&format!(" add_constant->{:?}", r.as_ref().ok()));
                match r {
                    Ok(i) => {
                        if i as usize != old_nconst { rep.fail(&format!("{}add_constant/ensures#ok_index_exact", B), &trace); }
                        if b.constants.len() != old_nconst + 1 { rep.fail(&format!("{}add_constant/ensures#ok_pushed", B), &trace); }
                    }
                    Err(_) => {
                        if old_nconst < 65535 { rep.fail(&format!("{}add_constant/ensures#err_only_at_limit", B), &trace); }
                    }
                }
                if b.code.len() != old_code.len() || b.source_map.len() != old_sm.len() { rep.fail(&format!("{}add_constant/ensures#frame", B), &trace); }
                continue;
            }
            _ if rng.below(4) == 0 => {
                // reserve a range and give it back: the view must return to what it was
                let k = rng.below(6) as usize;
                let oa = allocated(&old_regs);
                if let Ok(start) = b.reserve_registers(k) {
                    let mid = allocated(&snap(&b.registers));
                    if (start as usize..start as usize + k).any(|x| oa[x]) { rep.fail(&format!("{}reserve_registers/ensures#ok_fresh", B), &trace); }
                    if (start as usize..start as usize + k).any(|x| !mid[x]) { rep.fail(&format!("{}reserve_registers/ensures#ok_view", B), &trace); }
                    b.free_registers(start, k);
                    trace.push_str(&format!(" reserve_registers({})->{} free_registers", k, start));
                    if allocated(&snap(&b.registers)) != oa { rep.fail(&format!("{}free_registers/ensures#view", B), &trace); }
                    if !wf(&snap(&b.registers)) { rep.fail(&format!("{}free_registers/ensures#wf", B), &trace); }
                }
                continue;
            }
            _ if rng.below(3) == 0 => {
                let oa = allocated(&old_regs);
                let owned: Vec<u8> = (0..=255u16).filter(|r| oa[*r as usize]).map(|r| r as u8).collect();
                if let Some(r) = owned.last().copied() {
                    b.free_register(r);
                    trace.push_str(&format!(" free_register({})", r));
                    let mut exp = oa.clone();
                    exp[r as usize] = false;
                    if allocated(&snap(&b.registers)) != exp { rep.fail(&format!("{}free_register/ensures#view", B), &trace); }
                    if b.registers.max_used != old_regs.max_used { rep.fail(&format!("{}free_register/ensures#max_same", B), &trace); }
                }
                continue;
            }
            _ => {
                let r = b.alloc_register();
                trace.push_str(&format!(" alloc_register->{:?}", r.as_ref().ok()));
                if let Ok(reg) = r {
                    if allocated(&old_regs)[reg as usize] { rep.fail(&format!("{}alloc_register/ensures#ok_fresh", B), &trace); }
                    if reg >= b.registers.max_used { rep.fail(&format!("{}alloc_register/ensures#ok_counted", B), &trace); }
                }
                if b.code.len() != old_code.len() || b.source_map.len() != old_sm.len() { rep.fail(&format!("{}alloc_register/ensures#frame", B), &trace); }
                continue;
            }
        }
        if let Some((name, op)) = emitted {
            let p = format!("{}{}/ensures#", B, name);
            let idx = old_code.len();
            let pushed_ok = b.code.len() == idx + 1 && b.code[..idx].iter().zip(old_code.iter()).all(|(n, o)| op_eq(n, o))
                && op_eq(&b.code[idx], &op);
            if !pushed_ok {
                rep.fail(&format!("{}{}", p, if name == "emit_jump_to" { "no_truncation" } else { "code_pushed" }), &trace);
            }
            if !sm_wf(&b.source_map, b.code.len()) { rep.fail(&format!("{}wf", p), &trace); }
            match old_span {
                Some(s) => {
                    let got = lookup(&b.source_map, idx);
                    if got.map(|g| g.start) != Some(s.start) { rep.fail(&format!("{}span_recorded", p), &trace); }
                    want.push(Some(s.start));
                }
                None => {
                    let inherited = lookup(&old_sm, idx);
                    if lookup(&b.source_map, idx) != inherited { rep.fail(&format!("{}span_inherited", p), &trace); }
                    want.push(inherited.map(|g| g.start));
                }
            }
            for i in 0..idx {
                if lookup(&b.source_map, i) != lookup(&old_sm, i) {
                    rep.fail(&format!("{}earlier_spans_kept", p), &trace);
                    break;
                }
            }
            if b.constants.len() != old_nconst || snap(&b.registers) != old_regs || b.current_span != old_span {
                rep.fail(&format!("{}frame", p), &trace);
            }
        }
    }
    // whole-history statement the induction gives: every instruction still maps to the span recorded at emission
    let max_used = b.registers.max_used;
    let code_len = b.code.len();
    let chunk = b.finish();
    for (i, w) in want.iter().enumerate() {
        if chunk.get_source_location(i).map(|s| s.start) != *w {
            rep.fail(&format!("{}finish/ensures#source_map", B), &format!("{} ; instruction {} maps to {:?}, recorded {:?}", trace, i,
                     chunk.get_source_location(i).map(|s| s.start), w));
            break;
        }
    }
    if chunk.register_count != max_used { rep.fail(&format!("{}finish/ensures#register_count", B), &trace); }
    if chunk.code.len() != code_len { rep.fail(&format!("{}finish/ensures#code", B), &trace); }
}

fn constant_pool_limit(rep: &mut Report) {
    let mut b = BytecodeBuilder::new();
    let mut n = 0usize;
    loop {
        let before = b.constants.len();
        match b.add_constant(Constant::Number(n as f64)) {
            Ok(i) => {
                if i as usize != before {
                    rep.fail(&format!("{}add_constant/ensures#ok_index_exact", B), &format!("constant #{} got index {}", before, i));
                    break;
                }
                if i == u16::MAX {
                    rep.fail(&format!("{}add_constant/ensures#ok_never_the_no_name_sentinel", B),
                             &format!("constant #{} got index 65535 == ConstantIndex::MAX, the 'class has no name' sentinel of ApplyClassDecorator", before));
                    break;
                }
            }
            Err(_) => {
                if before < 65535 {
                    rep.fail(&format!("{}add_constant/ensures#err_only_at_limit", B), &format!("refused at {} constants", before));
                }
                if b.constants.len() != before {
                    rep.fail(&format!("{}add_constant/ensures#err_unchanged", B), &format!("pool changed on Err at {}", before));
                }
                break;
            }
        }
        n += 1;
        if n > 70000 {
            break;
        }
    }
    // de-duplicated strings / numbers around the 16-bit limit: the returned index must point at the constant
    for fill in [0usize, 3, 65530, 65533, 65534, 65535] {
        let mut b = BytecodeBuilder::new();
        for k in 0..fill {
            let _ = b.add_constant(Constant::Number(k as f64));
        }
        for k in 0..8usize {
            let name = format!("str{}", k);
            let js = JsString::from(name.as_str());
            let before = b.constants.len();
            match b.add_string(js.cheap_clone()) {
                Ok(i) => {
                    let ok = matches!(b.constants.get(i as usize), Some(Constant::String(x)) if x.as_str() == name);
                    if !ok {
                        rep.fail(&format!("{}add_string/ensures#ok_points_at_the_string", B),
                                 &format!("pool of {} constants, add_string({:?}) -> index {} which holds {:?}", before, name, i,
                                          b.constants.get(i as usize).map(|c| format!("{:?}", c).chars().take(40).collect::<String>())));
                    }
                    // asking again must give the same index and not grow the pool
                    let len2 = b.constants.len();
                    if b.add_string(js.cheap_clone()).ok() != Some(i) || b.constants.len() != len2 {
                        rep.fail(&format!("{}add_string/ensures#grows_by_at_most_one", B), &format!("second add_string({:?}) at pool size {}", name, len2));
                    }
                }
                Err(_) => {
                    if before < 65535 { rep.fail(&format!("{}add_string/ensures#err_only_at_limit", B), &format!("refused at {} constants", before)); }
                    if b.constants.len() != before { rep.fail(&format!("{}add_string/ensures#err_unchanged", B), &format!("pool changed on Err at {}", before)); }
                }
            }
            let x = 1000.5 + k as f64;
            let before = b.constants.len();
            match b.add_number(x) {
                Ok(i) => {
                    let ok = matches!(b.constants.get(i as usize), Some(Constant::Number(y)) if y.to_bits() == x.to_bits());
                    if !ok {
                        rep.fail(&format!("{}add_number/ensures#ok_points_at_the_number", B),
                                 &format!("pool of {} constants, add_number({}) -> index {}", before, x, i));
                    }
                }
                Err(_) => {
                    if before < 65535 { rep.fail(&format!("{}add_number/ensures#err_only_at_limit", B), &format!("refused at {} constants", before)); }
                    if b.constants.len() != before { rep.fail(&format!("{}add_number/ensures#err_unchanged", B), &format!("pool changed on Err at {}", before)); }
                }
            }
        }
    }
    // add_chunk / add_excluded_keys go through the same path
    let mut b2 = BytecodeBuilder::new();
    let r = b2.add_excluded_keys(Vec::new());
    if r.ok() != Some(0) { rep.fail(&format!("{}add_excluded_keys/ensures#ok_index_exact", B), "first excluded-keys constant"); }
    let r = b2.add_chunk(BytecodeChunk::new());
    if r.ok() != Some(1) { rep.fail(&format!("{}add_chunk/ensures#ok_index_exact", B), "second constant (chunk)"); }
}

#[test]
fn verif_oracle_builder() {
    let seed: u64 = std::env::var("VERIF_SEED").ok().and_then(|s| s.parse().ok()).unwrap_or(0);
    let iters: usize = std::env::var("VERIF_ITERS").ok().and_then(|s| s.parse().ok()).unwrap_or(2000);
    let mut rng = Rng(seed ^ 0xC10C20);
    let mut rep = Report { seen: BTreeSet::new() };
    let mut cases = 0usize;
    constant_pool_limit(&mut rep);
    cases += 1;
    for i in 0..iters {
        let len = 4 + rng.below(if i % 7 == 0 { 400 } else { 40 }) as usize;
        allocator_sequence(&mut rng, &mut rep, len);
        let len = 4 + rng.below(60) as usize;
        builder_sequence(&mut rng, &mut rep, len);
        cases += 2;
    }
    println!("VERIF-ORACLE-DONE cases={}", cases);
}
