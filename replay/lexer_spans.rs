// BOUNDED stand-in (exhaustive up to a stated bound, never counted as proved) for the part of the lexer's
// position bookkeeping that Kani could not decide (next_token / rescan_template_continuation /
// rescan_as_regexp reach StringDict hashing: no verdict in 25 min).  Contract checked on the REAL lexer:
//   every token's span (start, line, column) is consistent with the source text:
//     line   == 1 + number of line terminators (LF, U+2028, U+2029) before span.start
//     column == 1 + number of characters between the last terminator before span.start and span.start
//     span.start <= span.end <= source length, token starts never move backwards
// for ALL source strings of length <= BOUND over the alphabet below, driving the parser's two re-scan
// entry points the way the parser does (template continuation at the `}` closing a substitution,
// regexp at a `/` in operand position).
//   VERIF-ORACLE-FAIL obligation=<name> <input>
//   VERIF-ORACLE-DONE cases=<n>
use super::*;
use crate::string_dict::StringDict;

const ALPHABET: [char; 15] = ['a', '1', ' ', '\n', '\r', '`', '$', '{', '}', '/', '"', '\\', '\u{e9}', '\u{2028}', '\u{1F600}'];

fn reference(src: &str, byte_pos: usize) -> (u32, u32) {
    let mut line = 1u32;
    let mut col = 1u32;
    for (i, ch) in src.char_indices() {
        if i >= byte_pos {
            break;
        }
        if ch == '\n' || ch == '\u{2028}' || ch == '\u{2029}' {
            line += 1;
            col = 1;
        } else {
            col += 1;
        }
    }
    (line, col)
}

fn check_span(src: &str, what: &str, sp: Span, last_start: &mut usize, fails: &mut Vec<(String, String)>) {
    let ob = |n: &str| format!("lexer_spans/Lexer::{}", n);
    if sp.start > sp.end || sp.end > src.len() || !src.is_char_boundary(sp.start) || !src.is_char_boundary(sp.end) {
        fails.push((ob("token_span/ensures#byte_range_inside_source"), format!("src={:?} {} span={:?}", src, what, sp)));
        return;
    }
    if sp.start < *last_start {
        fails.push((ob("token_span/ensures#starts_never_move_backwards"), format!("src={:?} {} span={:?} after start {}", src, what, sp, last_start)));
    }
    *last_start = sp.start;
    let (l, c) = reference(src, sp.start);
    if (sp.line, sp.column) != (l, c) {
        let name = if what.starts_with("after-template-rescan") {
            "rescan_template_continuation/ensures#line_column_consistent_with_source"
        } else if what.starts_with("regexp-rescan") || what.starts_with("after-regexp-rescan") {
            "rescan_as_regexp/ensures#line_column_consistent_with_source"
        } else {
            "next_token/ensures#line_column_consistent_with_source"
        };
        fails.push((ob(name), format!("src={:?} {} span=(start {}, line {}, column {}) want (line {}, column {})", src, what, sp.start, sp.line, sp.column, l, c)));
    }
}

fn drive(src: &str, fails: &mut Vec<(String, String)>) {
    let mut dict = StringDict::new();
    let mut lx = Lexer::new(src, &mut dict);
    let mut last_start = 0usize;
    // stack of brace depths: one entry per open template substitution
    let mut subst: Vec<u32> = Vec::new();
    let mut prev_operand = false;
    let mut after = "token";
    for _ in 0..64 {
        let tok = lx.next_token();
        check_span(src, after, tok.span, &mut last_start, fails);
        after = "token";
        match &tok.kind {
            TokenKind::Eof => return,
            TokenKind::TemplateHead(_) => {
                subst.push(0);
                prev_operand = false;
            }
            TokenKind::LBrace => {
                if let Some(d) = subst.last_mut() {
                    *d += 1;
                }
                prev_operand = false;
            }
            TokenKind::RBrace => {
                let close = matches!(subst.last(), Some(0));
                if close {
                    // exactly what the parser does at the end of `${ expr }`
                    let kind = lx.rescan_template_continuation(tok.span);
                    match kind {
                        TokenKind::TemplateTail(_) => {
                            subst.pop();
                        }
                        TokenKind::TemplateMiddle(_) => {}
                        _ => {
                            subst.pop();
                        }
                    }
                    after = "after-template-rescan token";
                    prev_operand = true;
                } else {
                    if let Some(d) = subst.last_mut() {
                        *d = d.saturating_sub(1);
                    }
                    prev_operand = false;
                }
            }
            TokenKind::Slash | TokenKind::SlashEq if !prev_operand => {
                let t2 = lx.rescan_as_regexp(tok.span);
                let mut ls = tok.span.start;
                check_span(src, "regexp-rescan token", t2.span, &mut ls, fails);
                after = "after-regexp-rescan token";
                prev_operand = true;
            }
            TokenKind::Identifier(_) | TokenKind::Number(_) | TokenKind::String(_) | TokenKind::RParen | TokenKind::RBracket => {
                prev_operand = true;
            }
            _ => {
                prev_operand = false;
            }
        }
    }
}

// checkpoint()/restore() as the parser's speculative parses use them: look ahead `ahead` tokens from
// every token boundary, rewind, and the token stream (kinds and spans) must be the one of a straight run
fn spans_straight(src: &str) -> Vec<(String, Span)> {
    let mut dict = StringDict::new();
    let mut lx = Lexer::new(src, &mut dict);
    let mut out = Vec::new();
    for _ in 0..64 {
        let t = lx.next_token();
        let eof = matches!(t.kind, TokenKind::Eof);
        out.push((format!("{:?}", t.kind), t.span));
        if eof {
            break;
        }
    }
    out
}

fn drive_backtracking(src: &str, ahead: usize, fails: &mut Vec<(String, String)>) {
    let want = spans_straight(src);
    let mut dict = StringDict::new();
    let mut lx = Lexer::new(src, &mut dict);
    let mut got = Vec::new();
    for _ in 0..64 {
        let cp = lx.checkpoint();
        let nl = lx.had_newline_before();
        for _ in 0..ahead {
            let _ = lx.next_token();
        }
        lx.restore(cp);
        if lx.had_newline_before() != nl {
            fails.push(("lexer_spans/Lexer::restore/ensures#token_stream_unchanged_by_lookahead".to_string(),
                        format!("src={:?} newline flag not restored at token {}", src, got.len())));
            return;
        }
        let t = lx.next_token();
        let eof = matches!(t.kind, TokenKind::Eof);
        got.push((format!("{:?}", t.kind), t.span));
        if eof {
            break;
        }
    }
    if got != want {
        let i = got.iter().zip(want.iter()).position(|(a, b)| a != b).unwrap_or(got.len().min(want.len()));
        fails.push(("lexer_spans/Lexer::restore/ensures#token_stream_unchanged_by_lookahead".to_string(),
                    format!("src={:?} lookahead {} then restore: token {} is {:?}, straight run gives {:?}", src, ahead, i, got.get(i), want.get(i))));
    }
}

fn enumerate(len: usize, cur: &mut String, cases: &mut usize, fails: &mut Vec<(String, String)>) {
    drive(cur, fails);
    drive_backtracking(cur, 1, fails);
    drive_backtracking(cur, 2, fails);
    *cases += 3;
    if len == 0 || fails.len() > 40 {
        return;
    }
    for ch in ALPHABET {
        cur.push(ch);
        enumerate(len - 1, cur, cases, fails);
        cur.pop();
    }
}

#[test]
fn verif_oracle_lexer_spans() {
    let bound: usize = std::env::var("VERIF_LEXER_BOUND").ok().and_then(|s| s.parse().ok()).unwrap_or(4);
    let mut cases = 0usize;
    let mut fails: Vec<(String, String)> = Vec::new();
    // every string of length <= bound over the alphabet
    enumerate(bound, &mut String::new(), &mut cases, &mut fails);
    // longer structured programs: the same checks on template / regexp heavy text under layout changes
    let seeds = [
        "let s = `a${x}b${ y }c` + z;\nfoo();",
        "x = `${a}` ; y = `${{k: 1}.k}` ; z\n= 3",
        "a = /re/g.test(s) ? `q${1}` : /x\\/y/;\nb",
        "f(`\n${\n x \n}\n`)\n; g",
        "`\u{e9}${\u{e9}1}\u{2028}${2}` /a/",
    ];
    for s in seeds {
        for pad in ["", " ", "\n", "\r\n", "\u{e9} ", "/* c */ ", "// c\n"] {
            let src = format!("{}{}", pad, s);
            drive(&src, &mut fails);
            drive(&src.replace('\n', "\r\n"), &mut fails);
            drive_backtracking(&src, 3, &mut fails);
            cases += 3;
        }
    }
    let mut seen = std::collections::BTreeSet::new();
    for (name, input) in &fails {
        if seen.insert(name.clone()) {
            println!("VERIF-ORACLE-FAIL obligation={} {}", name, input);
        }
    }
    println!("VERIF-ORACLE-DONE cases={}", cases);
}
