// Native replay battery for the C15 side obligation (DESIGN §4.5): the bitwise operators of the real
// VM must apply ToInt32 / ToUint32 (wrap modulo 2^32) to their operands.  The contract proper sits on
// value::to_int32 / to_uint32 (Kani, all 2^64 bit patterns); this battery is the only link between those
// helpers and the 13 operator sites inside execute_op, which no verifier here can reach.
// Expected values are computed independently with integer arithmetic (i128), never with the code
// under test.  Second half (number_format_battery): the printing / parsing / formatting clauses of C15 against exact
// decimal arithmetic (big-integer expansion of m * 2^k) - TESTING, no contract of this family can carry them.  Mounted as a #[cfg(test)] child module of src/lib.rs in a scratch copy.
//   VERIF-SIDE-FAIL obligation=<name> expr=<js> got=<v> want=<v>
//   VERIF-SIDE-DONE cases=<n>
use crate::{Interpreter, JsValue, StepResult};

fn eval_num(src: &str) -> Result<f64, String> {
    let mut interp = Interpreter::new();
    interp.prepare(src, None).map_err(|e| format!("{:?}", e))?;
    loop {
        match interp.step().map_err(|e| format!("{:?}", e))? {
            StepResult::Continue => continue,
            StepResult::Complete(rv) => {
                return match rv.value() {
                    JsValue::Number(n) => Ok(*n),
                    other => Err(format!("non-number {:?}", other)),
                };
            }
            _ => return Err("unexpected step result".to_string()),
        }
    }
}

// exact integer value of a finite f64 after truncation toward zero, as i128 * 2^shift (shift >= 0)
fn to_uint32_spec(x: f64) -> u32 {
    if !x.is_finite() {
        return 0;
    }
    let bits = x.to_bits();
    let neg = (bits >> 63) == 1;
    let e = ((bits >> 52) & 0x7ff) as i32;
    let frac = bits & ((1u64 << 52) - 1);
    if e == 0 {
        return 0; // subnormal or zero: |x| < 1
    }
    let m = (frac | (1u64 << 52)) as u128; // value = m * 2^(e-1075)
    let sh = e - 1075;
    let low: u128 = if sh >= 0 {
        if sh >= 64 { 0 } else { (m << sh) & 0xffff_ffff }
    } else if sh <= -64 {
        0
    } else {
        (m >> (-sh)) & 0xffff_ffff // truncation toward zero of the magnitude
    };
    let low = low as u32;
    if neg { low.wrapping_neg() } else { low }
}
fn to_int32_spec(x: f64) -> i32 {
    to_uint32_spec(x) as i32
}

fn js_lit(x: f64) -> String {
    if x.is_nan() {
        "NaN".to_string()
    } else if x == f64::INFINITY {
        "Infinity".to_string()
    } else if x == f64::NEG_INFINITY {
        "(-Infinity)".to_string()
    } else {
        // exact: an f64 is m * 2^k; print as (m * 2**k) so no decimal parsing is involved
        let bits = x.to_bits();
        let neg = (bits >> 63) == 1;
        let e = ((bits >> 52) & 0x7ff) as i32;
        let frac = bits & ((1u64 << 52) - 1);
        let (m, k) = if e == 0 { (frac, -1074) } else { (frac | (1u64 << 52), e - 1075) };
        format!("({}{} * 2**{})", if neg { "-" } else { "" }, m, k)
    }
}


fn eval_str(src: &str) -> Result<String, String> {
    let mut interp = Interpreter::new();
    interp.prepare(src, None).map_err(|e| format!("{:?}", e))?;
    loop {
        match interp.step().map_err(|e| format!("{:?}", e))? {
            StepResult::Continue => continue,
            StepResult::Complete(rv) => {
                return match rv.value() {
                    JsValue::String(s) => Ok(s.to_string()),
                    other => Err(format!("non-string {:?}", other)),
                };
            }
            _ => return Err("unexpected step result".to_string()),
        }
    }
}

// ---- exact decimal arithmetic on doubles (reference for printing / parsing / formatting) ---------------
// |value| of m * 2^k as (decimal digits most significant first without leading zeros ([0] for zero), scale):
// value = digits * 10^(-scale).  Big integer in base 1e9, multiplied by 2 or 5 |k| times: exact.
fn exact_mk(m: u64, k: i32) -> (Vec<u8>, usize) {
    let mut limbs: Vec<u64> = vec![m % 1_000_000_000, (m / 1_000_000_000) % 1_000_000_000, m / 1_000_000_000_000_000_000];
    let (f, n) = if k >= 0 { (2u64, k as usize) } else { (5u64, (-k) as usize) };
    for _ in 0..n {
        let mut carry = 0u64;
        for l in limbs.iter_mut() {
            let v = *l * f + carry;
            *l = v % 1_000_000_000;
            carry = v / 1_000_000_000;
        }
        if carry > 0 {
            limbs.push(carry);
        }
    }
    let mut digits: Vec<u8> = Vec::new();
    for l in limbs.iter().rev() {
        let s = format!("{:09}", l);
        digits.extend(s.bytes().map(|b| b - b'0'));
    }
    let first = digits.iter().position(|d| *d != 0).unwrap_or(digits.len() - 1);
    (digits[first..].to_vec(), if k >= 0 { 0 } else { (-k) as usize })
}
fn mk_of(x: f64) -> (u64, i32) {
    let bits = x.abs().to_bits();
    let e = ((bits >> 52) & 0x7ff) as i32;
    let frac = bits & ((1u64 << 52) - 1);
    if e == 0 { (frac, -1074) } else { (frac | (1u64 << 52), e - 1075) }
}
fn exact_decimal(x: f64) -> (Vec<u8>, usize) {
    let (m, k) = mk_of(x);
    exact_mk(m, k)
}
// plain decimal text of digits * 10^(-scale)
fn plain_text(digits: &[u8], scale: usize) -> String {
    let mut d: Vec<u8> = digits.to_vec();
    while d.len() <= scale {
        d.insert(0, 0);
    }
    let ip = d.len() - scale;
    let mut s: String = d[..ip].iter().map(|c| (b'0' + c) as char).collect();
    if scale > 0 {
        s.push('.');
        s.extend(d[ip..].iter().map(|c| (b'0' + c) as char));
    }
    s
}
// round (digits, decimal exponent e10 of the first digit) to n significant digits, ties away from zero ("pick the larger n")
fn round_sig(digits: &[u8], e10: i32, n: usize) -> (Vec<u8>, i32) {
    let mut d: Vec<u8> = digits.to_vec();
    if d.len() <= n {
        d.resize(n, 0);
        return (d, e10);
    }
    let up = d[n] >= 5;
    d.truncate(n);
    let mut e = e10;
    if up {
        let mut i = n;
        loop {
            if i == 0 {
                d.insert(0, 1);
                d.truncate(n);
                e += 1;
                break;
            }
            i -= 1;
            if d[i] == 9 {
                d[i] = 0;
            } else {
                d[i] += 1;
                break;
            }
        }
    }
    (d, e)
}
fn dstr(d: &[u8]) -> String {
    d.iter().map(|c| (b'0' + c) as char).collect()
}
fn exp_form(d: &[u8], e: i32) -> String {
    let mut s = dstr(&d[..1]);
    if d.len() > 1 {
        s.push('.');
        s.push_str(&dstr(&d[1..]));
    }
    s.push('e');
    s.push(if e >= 0 { '+' } else { '-' });
    s.push_str(&e.abs().to_string());
    s
}
// Number.prototype.toFixed(f) for finite |x| < 1e21, from the exact decimal value
fn ref_to_fixed(x: f64, f: usize) -> String {
    let (digits, scale) = exact_decimal(x);
    let mut d = digits.clone();
    while d.len() <= scale {
        d.insert(0, 0);
    }
    // d has d.len() - scale integer digits
    let ip = d.len() - scale;
    let keep = ip + f;
    let mut up = false;
    if keep < d.len() {
        up = d[keep] >= 5;
        d.truncate(keep);
    } else {
        d.resize(keep, 0);
    }
    let mut ipn = ip;
    if up {
        let mut i = d.len();
        loop {
            if i == 0 {
                d.insert(0, 1);
                ipn += 1;
                break;
            }
            i -= 1;
            if d[i] == 9 {
                d[i] = 0;
            } else {
                d[i] += 1;
                break;
            }
        }
    }
    let mut s = String::new();
    if x < 0.0 {
        s.push('-');
    }
    s.push_str(&dstr(&d[..ipn]));
    if f > 0 {
        s.push('.');
        s.push_str(&dstr(&d[ipn..]));
    }
    s
}
fn ref_to_exponential(x: f64, fd: usize) -> String {
    let mut s = String::new();
    if x < 0.0 {
        s.push('-');
    }
    if x == 0.0 {
        let z = vec![0u8; fd + 1];
        s.push_str(&exp_form(&z, 0));
        return s;
    }
    let (digits, scale) = exact_decimal(x);
    let e10 = digits.len() as i32 - scale as i32 - 1;
    let (d, e) = round_sig(&digits, e10, fd + 1);
    s.push_str(&exp_form(&d, e));
    s
}
fn ref_to_precision(x: f64, p: usize) -> String {
    let mut s = String::new();
    if x < 0.0 {
        s.push('-');
    }
    if x == 0.0 {
        s.push('0');
        if p > 1 {
            s.push('.');
            s.push_str(&"0".repeat(p - 1));
        }
        return s;
    }
    let (digits, scale) = exact_decimal(x);
    let e10 = digits.len() as i32 - scale as i32 - 1;
    let (d, e) = round_sig(&digits, e10, p);
    if e < -6 || e >= p as i32 {
        s.push_str(&exp_form(&d, e));
    } else if e >= 0 {
        let ip = e as usize + 1;
        s.push_str(&dstr(&d[..ip]));
        if p > ip {
            s.push('.');
            s.push_str(&dstr(&d[ip..]));
        }
    } else {
        s.push_str("0.");
        s.push_str(&"0".repeat((-(e + 1)) as usize));
        s.push_str(&dstr(&d));
    }
    s
}
// integer part (exact, any magnitude: long division of the exact decimal digits) and - for power-of-two radices,
// where the expansion is finite - the fraction digits of x in the given radix
fn ref_to_radix(x: f64, radix: u32) -> String {
    let digit = |v: u32| std::char::from_digit(v, radix).unwrap();
    let mut s = String::new();
    if x < 0.0 {
        s.push('-');
    }
    let a = x.abs();
    let mut fr = a - a.trunc(); // exact
    let (mut dec, scale) = exact_decimal(a.trunc());
    if dec != vec![0] && scale > 0 {
        // an integer written with `scale` fractional digits: they are all zero
        assert!(dec.len() > scale && dec[dec.len() - scale..].iter().all(|d| *d == 0));
        dec.truncate(dec.len() - scale);
    }
    let mut id = Vec::new();
    loop {
        // dec /= radix, remainder -> next digit
        let mut rem = 0u32;
        let mut q: Vec<u8> = Vec::with_capacity(dec.len());
        for d in &dec {
            let cur = rem * 10 + *d as u32;
            q.push((cur / radix) as u8);
            rem = cur % radix;
        }
        id.push(digit(rem));
        let first = q.iter().position(|d| *d != 0);
        match first {
            Some(f) => dec = q[f..].to_vec(),
            None => break,
        }
    }
    s.extend(id.iter().rev());
    if fr > 0.0 {
        s.push('.');
        while fr > 0.0 {
            fr *= radix as f64; // exact for power-of-two radices
            let dgt = fr.trunc();
            s.push(digit(dgt as u32));
            fr -= dgt;
        }
    }
    s
}

// what a printed number must satisfy: (digits, decimal exponent of first digit) parsed from the JS text
fn parse_js_number_text(t: &str) -> Option<(bool, Vec<u8>, i32, bool)> {
    // -> (negative, significant digits without leading/trailing zeros, e10, exponent_form)
    let (neg, body) = match t.strip_prefix('-') { Some(r) => (true, r), None => (false, t) };
    let (mant, exp, ef) = match body.split_once('e') {
        Some((m, e)) => {
            if !(e.starts_with('+') || e.starts_with('-')) || e.len() < 2 || e[1..].starts_with('0') { return None; }
            (m, e.parse::<i32>().ok()?, true)
        }
        None => (body, 0, false),
    };
    let (ip, fp) = match mant.split_once('.') { Some((a, b)) => (a, b), None => (mant, "") };
    if ip.is_empty() || !ip.bytes().all(|b| b.is_ascii_digit()) || !fp.bytes().all(|b| b.is_ascii_digit()) { return None; }
    if mant.contains('.') && (fp.is_empty() || fp.ends_with('0')) { return None; } // no trailing zeros / bare point
    if ip.len() > 1 && ip.starts_with('0') { return None; }
    if ef && ip.len() != 1 { return None; }
    let all: Vec<u8> = ip.bytes().chain(fp.bytes()).map(|b| b - b'0').collect();
    let first = all.iter().position(|d| *d != 0)?;
    let last = all.iter().rposition(|d| *d != 0)?;
    let e10 = exp + ip.len() as i32 - 1 - first as i32;
    Some((neg, all[first..=last].to_vec(), e10, ef))
}

fn number_format_battery(seed: u64, extra: usize, fail: &mut dyn FnMut(&str, String)) -> usize {
    use crate::value::{number_to_string, string_to_number};
    let mut cases = 0usize;
    // ---- the families of the property's quantifier -------------------------------------------------
    let mut xs: Vec<f64> = Vec::new();
    let nb = |x: f64, v: &mut Vec<f64>| {
        let b = x.to_bits();
        for d in [-2i64, -1, 0, 1, 2] {
            let y = f64::from_bits((b as i64 + d) as u64);
            if y.is_finite() && y > 0.0 { v.push(y); }
        }
    };
    for k in -1074..=1023 { nb(2f64.powi(k), &mut xs); }
    for k in -323..=308 { nb(format!("1e{}", k).parse::<f64>().unwrap(), &mut xs); }
    for e in 0..2047u64 {
        for frac in [0u64, 1, (1u64 << 52) - 1, 1u64 << 51, 0x000f_ffff_ffff_fffe, 0x0005_5555_5555_5555] {
            let y = f64::from_bits((e << 52) | frac);
            if y > 0.0 { xs.push(y); }
        }
    }
    for i in 1..=300u64 { xs.push(f64::from_bits(i)); xs.push(f64::from_bits(i * 0x0000_0123_4567_89ab)); }
    for c in [2f64.powi(31), 2f64.powi(32), 2f64.powi(53), 1e21, 1e-6, 1e-7, 1e15, 1e16, 1e20] {
        for d in -40..=40 { let y = c + d as f64 * (if c >= 1e15 { c * 1e-15 } else if c < 1.0 { c * 1e-3 } else { 1.0 }); if y > 0.0 { xs.push(y); } nb(c, &mut xs); }
    }
    for t in ["0.1", "0.2", "0.3", "4.35", "1.005", "8.345", "10.235", "2.5", "0.5", "1.45", "123.456", "0.000001234", "1.2345e-7", "6.02214076e23",
              "1.7976931348623157e308", "5e-324", "2.2250738585072014e-308", "123456789012345680000", "999999999999999900000", "0.30000000000000004",
              "9.5", "99.5", "0.95", "0.00001", "123456", "1.5", "12345", "1234.5678", "1e21", "1.25", "1.35", "0.045", "1000000000000000128", "0.000035"] {
        xs.push(t.parse::<f64>().unwrap());
    }
    let mut rng = Rng(seed ^ 0xF0C15);
    for _ in 0..(2000 + extra * 20) {
        let y = f64::from_bits(rng.next() & 0x7fff_ffff_ffff_ffff);
        if y.is_finite() && y > 0.0 { xs.push(y); }
    }
    // ---- 1. number_to_string: reads back, shortest, prescribed notation -------------------------------
    for &x in &xs {
        for &v in &[x, -x] {
            cases += 1;
            let t = match std::panic::catch_unwind(|| number_to_string(v)) {
                Ok(t) => t,
                Err(_) => { fail("number_to_string/ensures#total", format!("sig=panic x=0x{:016x} ({:e}): number_to_string panicked", v.to_bits(), v)); continue; }
            };
            let id = format!("x=0x{:016x} printed {:?}", v.to_bits(), t);
            let parsed = match parse_js_number_text(&t) {
                Some(p) => p,
                None => { fail("number_to_string/ensures#well_formed_js_number_text", format!("sig=malformed {}", id)); continue; }
            };
            let (neg, digits, e10, ef) = parsed;
            if neg != (v < 0.0) { fail("number_to_string/ensures#sign", id.clone()); }
            // reads back (Rust's parser is correctly rounded and independent of the printing code)
            let rust_text = format!("{}{}e{}", if neg { "-" } else { "" }, dstr(&digits), e10 - digits.len() as i32 + 1);
            if rust_text.parse::<f64>().ok() != Some(v) {
                fail("number_to_string/ensures#reads_back_to_the_same_double", format!("sig=not-round-trip {}", id));
                continue;
            }
            // shortest: neither (k-1)-digit neighbour of the exact value reads back
            let k = digits.len();
            if k > 1 {
                let (ed, es) = exact_decimal(v);
                let ee = ed.len() as i32 - es as i32 - 1;
                let mut lo = ed.clone();
                lo.truncate(k - 1);
                let (hi, hie) = { let mut t9 = ed.clone(); t9.truncate(k - 1); t9.push(9); round_sig(&t9, ee, k - 1) };
                for (cd, ce) in [(lo, ee), (hi, hie)] {
                    let txt = format!("{}e{}", dstr(&cd), ce - cd.len() as i32 + 1);
                    if txt.parse::<f64>().ok() == Some(v.abs()) {
                        fail("number_to_string/ensures#shortest_digits", format!("sig=not-shortest {} but {} reads back too", id, txt));
                    }
                }
            }
            // notation: exponent form exactly when the point position p = e10 + 1 is > 21 or <= -6
            let p = e10 + 1;
            if ef != (p > 21 || p <= -6) {
                fail("number_to_string/ensures#notation_prescribed_by_magnitude", format!("sig=wrong-notation {} p={}", id, p));
            }
            // 2. string_to_number reads the printed text, and the full exact expansion, back to the same double
            cases += 1;
            if string_to_number(&t).to_bits() != v.to_bits() {
                fail("string_to_number/ensures#reads_printed_text_back", format!("sig=print-parse {} -> {:e}", id, string_to_number(&t)));
            }
        }
    }
    // ---- 2b. correctly rounded reading of long decimal strings: exact expansions and midpoints ----------
    for (i, &x) in xs.iter().enumerate() {
        if i % 7 != 0 { continue; }
        cases += 1;
        let (d, s) = exact_decimal(x);
        let full = plain_text(&d, s);
        if string_to_number(&full).to_bits() != x.to_bits() {
            fail("string_to_number/ensures#correctly_rounded", format!("sig=exact-expansion x=0x{:016x} text of {} chars -> {:e}", x.to_bits(), full.len(), string_to_number(&full)));
        }
        let up = f64::from_bits(x.to_bits() + 1);
        let (m, k) = mk_of(x);
        if up.is_finite() && mk_of(up).1 == k {
            // midpoint between x and its successor: (2m+1) * 2^(k-1); ties go to the even mantissa
            let (md, ms) = exact_mk(2 * m + 1, k - 1);
            let mid = plain_text(&md, ms);
            let even = if m % 2 == 0 { x } else { up };
            let got = string_to_number(&mid);
            if got.to_bits() != even.to_bits() {
                fail("string_to_number/ensures#correctly_rounded", format!("sig=midpoint-tie x=0x{:016x} -> 0x{:016x} want 0x{:016x}", x.to_bits(), got.to_bits(), even.to_bits()));
            }
            let above = format!("{}{}1", mid, if ms == 0 { "." } else { "" });
            let got = string_to_number(&above);
            if got.to_bits() != up.to_bits() {
                fail("string_to_number/ensures#correctly_rounded", format!("sig=just-above-midpoint x=0x{:016x} -> 0x{:016x} want 0x{:016x}", x.to_bits(), got.to_bits(), up.to_bits()));
            }
        }
    }
    // ---- 3. in-program: literals, String(x), x.toString(), toFixed / toExponential / toPrecision / toString(radix) ----
    let mut ys: Vec<f64> = Vec::new();
    for (i, &x) in xs.iter().enumerate() {
        if (x >= 1e-9 && x < 1e22 && i % 23 == 0) || i % 211 == 0 { ys.push(x); }
    }
    for t in ["0.1", "4.35", "1.005", "8.345", "10.235", "2.5", "0.5", "1.45", "123.456", "0.000001234", "9.5", "99.5", "0.95", "0.00001", "123456", "1.5",
              "12345", "1234.5678", "1.25", "1.35", "0.045", "0.000035", "1e21", "123456789012345680000", "0.15", "0.25", "0.35", "1e-7", "5e-324", "1.7976931348623157e308"] {
        ys.push(t.parse::<f64>().unwrap());
    }
    let mut batch: Vec<(String, String, String, String)> = Vec::new(); // (obligation, sig, expr, want)
    for &y in &ys {
        for &v in &[y, -y] {
            let lit = js_lit(v);
            let printed = match std::panic::catch_unwind(|| number_to_string(v)) { Ok(t) => t, Err(_) => continue };
            batch.push(("String_of_number".into(), "sig=String(x)".into(), format!("String({})", lit), printed.clone()));
            batch.push(("Number_prototype_toString".into(), "sig=toString()".into(), format!("({}).toString()", lit), printed.clone()));
            batch.push(("template_and_concat".into(), "sig=concat".into(), format!("('' + {})", lit), printed.clone()));
            batch.push(("numeric_literal_correctly_rounded".into(), "sig=literal".into(), format!("String({} === {})", printed, lit), "true".into()));
            let a = v.abs();
            if a < 1e21 {
                for f in [0usize, 1, 2, 3, 7, 20] {
                    batch.push(("toFixed".into(), format!("sig=toFixed({})", if ref_to_fixed(v, f) != ref_to_fixed(v, f + 30)[..ref_to_fixed(v, f).len().min(ref_to_fixed(v, f + 30).len())] { "rounded" } else { "exact" }),
                                format!("({}).toFixed({})", lit, f), ref_to_fixed(v, f)));
                }
            } else {
                batch.push(("toFixed".into(), "sig=toFixed(>=1e21)".into(), format!("({}).toFixed(2)", lit), printed.clone()));
            }
            for fd in [0usize, 1, 2, 6, 15, 20] {
                batch.push(("toExponential".into(), "sig=toExponential(d)".into(), format!("({}).toExponential({})", lit, fd), ref_to_exponential(v, fd)));
            }
            if let Some((neg, digits, e10, _)) = parse_js_number_text(&printed) {
                batch.push(("toExponential".into(), "sig=toExponential()".into(), format!("({}).toExponential()", lit),
                            format!("{}{}", if neg { "-" } else { "" }, exp_form(&digits, e10))));
            }
            for p in [1usize, 2, 3, 7, 16, 21] {
                let want = ref_to_precision(v, p);
                let sig = if want.contains('e') { "sig=toPrecision(exponent-form)" } else if a < 1.0 { "sig=toPrecision(fixed<1)" } else { "sig=toPrecision(fixed)" };
                batch.push(("toPrecision".into(), sig.into(), format!("({}).toPrecision({})", lit, p), want));
            }
            {
                for radix in [2u32, 8, 16, 32, 36, 3, 10, 7] {
                    let frac = a != a.trunc();
                    if frac && !(radix == 2 || radix == 8 || radix == 16 || radix == 32) { continue; }
                    let want = if radix == 10 { printed.clone() } else { ref_to_radix(v, radix) };
                    batch.push(("toString_radix".into(), format!("sig=toString(radix){}", if frac { ":fraction" } else { ":integer" }),
                                format!("({}).toString({})", lit, radix), want));
                }
            }
        }
    }
    // parseInt / parseFloat: numeric strings with trailing text, digit strings of any length, every radix
    for &y in &ys {
        let printed = match std::panic::catch_unwind(|| number_to_string(y)) { Ok(t) => t, Err(_) => continue };
        let lit = js_lit(y);
        batch.push(("parseFloat".into(), "sig=parseFloat(printed+junk)".into(), format!("String(parseFloat('  {}px') === {})", printed, lit), "true".into()));
        batch.push(("parseFloat".into(), "sig=parseFloat(-printed)".into(), format!("String(parseFloat('-{}e') === -{})", printed.replace("e+", "e").replace('e', "E"), lit), "true".into()));
        if y == y.trunc() && y < 1e300 {
            for radix in [2u32, 8, 16, 32, 10] {
                let text = ref_to_radix(y, radix);
                batch.push(("parseInt".into(), format!("sig=parseInt(radix-{})", if radix == 10 { "10" } else { "power-of-two" }),
                            format!("String(parseInt('{}', {}) === {})", text, radix, lit), "true".into()));
            }
            // radix literals and Number("0x..") / ("0o..") / ("0b..") of any length
            for (radix, pfx) in [(16u32, "0x"), (8, "0o"), (2, "0b")] {
                let text = ref_to_radix(y, radix);
                batch.push(("radix_literal".into(), "sig=literal(0x/0o/0b)".into(), format!("String({}{} === {})", pfx, text, lit), "true".into()));
                batch.push(("string_to_number_radix_prefix".into(), "sig=Number(0x/0o/0b)".into(), format!("String(Number('{}{}') === {})", pfx, text, lit), "true".into()));
            }
            if y < 9007199254740992.0 {
                for radix in [3u32, 7, 36] {
                    batch.push(("parseInt".into(), "sig=parseInt(radix-other,<2^53)".into(),
                                format!("String(parseInt('-{}zz'.slice(0, -2) + '~', {}) === -{})", ref_to_radix(y, radix), radix, lit), "true".into()));
                }
            }
        }
    }
    for (expr, want) in [
        ("parseFloat('1e')", "1"), ("parseFloat('1e+')", "1"), ("parseFloat('1e-x')", "1"), ("parseFloat('.5')", "0.5"), ("parseFloat('5.')", "5"),
        ("parseFloat('-.5e-2x')", "-0.005"), ("parseFloat('Infinityx')", "Infinity"), ("parseFloat('-Infinity')", "-Infinity"), ("parseFloat('+Infinity')", "Infinity"),
        ("parseFloat('infinity')", "NaN"), ("parseFloat('.')", "NaN"), ("parseFloat('.e1')", "NaN"), ("parseFloat('e5')", "NaN"), ("parseFloat('0x10')", "0"),
        ("parseFloat('1_0')", "1"), ("parseFloat('1.2.3')", "1.2"), ("parseFloat('')", "NaN"), ("parseFloat('9007199254740993')", "9007199254740992"),
        ("parseFloat('1e1000')", "Infinity"), ("parseFloat('1e-1000')", "0"), ("1 / parseFloat('-0')", "-Infinity"),
        ("parseInt('0x1f')", "31"), ("parseInt('0X1F', 16)", "31"), ("parseInt('0x1f', 10)", "0"), ("parseInt('0x')", "NaN"), ("parseInt('-0x10')", "-16"),
        ("parseInt('12px')", "12"), ("parseInt('  -42')", "-42"), ("parseInt('1e3')", "1"), ("parseInt('')", "NaN"), ("parseInt('zz', 36)", "1295"),
        ("parseInt('12', 2)", "1"), ("parseInt('2', 2)", "NaN"), ("parseInt('10', 37)", "NaN"), ("parseInt('10', 1)", "NaN"), ("parseInt('10', 0)", "10"),
        ("1 / parseInt('-0')", "-Infinity"), ("parseInt('123456789012345678901234567890')", "1.2345678901234568e+29"),
        ("parseInt('9007199254740993')", "9007199254740992"), ("parseInt('9007199254740995')", "9007199254740996"),
        ("parseInt('7fffffffffffffff', 16)", "9223372036854776000"), ("parseInt('ffffffffffffffffffffffffffffffffffff', 16)", "2.2300745198530623e+43"),
        ("parseInt('\\uFEFF12')", "12"), ("parseFloat('\\uFEFF\\u00A0 1.5')", "1.5"), ("parseInt('\\u008512')", "NaN"), ("Number.parseFloat('1.5abc')", "1.5"),
        ("Number.parseInt('12px')", "12"), ("Number.parseInt('0x1f')", "31"), ("(1.5).toString(undefined)", "1.5"), ("(NaN).toPrecision(200)", "NaN"),
        ("(Infinity).toFixed(2)", "Infinity"), ("(-Infinity).toExponential(200)", "-Infinity"), ("(255).toString(16.9)", "ff"),
        ("parseInt('1'.repeat(400))", "Infinity"), ("0xFFFFFFFFFFFFFFFFFF", "4.722366482869645e+21"), ("0xFFFFFFFFFFFFFFFF", "18446744073709552000"),
        ("Number('0x+1')", "NaN"), ("Number('0x')", "NaN"), ("Number('0b12')", "NaN"), ("Number('-0x10')", "NaN"), ("0x20000000000001", "9007199254740992"), ("0x20000000000003", "9007199254740996"),
        ("0b1", "1"), ("1_000.5", "1000.5"), (".5e1", "5"), ("5.e1", "50"), ("1E3", "1000"), ("0.1e-400", "0"), ("1e400", "Infinity"), ("0XfF", "255"), ("0B11", "3"), ("0O7", "7"), ("parseInt('1' + '0'.repeat(200), 2) === 2 ** 200", "true"),
        ("parseInt('1' + '0'.repeat(52) + '1' + '0'.repeat(80) + '1', 2) === 2 ** 134 + 2 ** 82", "true"),
    ] {
        batch.push(("parse_prefix_table".into(), format!("sig=table:{}", expr.split('(').next().unwrap_or("")), format!("String({})", expr), want.to_string()));
    }
    for chunk in batch.chunks(150) {
        let prog = format!("[{}].join('\\u0001')", chunk.iter().map(|c| c.2.clone()).collect::<Vec<_>>().join(", "));
        match eval_str(&prog) {
            Ok(out) => {
                let got: Vec<&str> = out.split('\u{1}').collect();
                if got.len() != chunk.len() {
                    fail("formatting_batch", format!("sig=batch-shape got {} results for {} expressions", got.len(), chunk.len()));
                    continue;
                }
                for (c, g) in chunk.iter().zip(got.iter()) {
                    cases += 1;
                    if *g != c.3 {
                        fail(&c.0, format!("{} expr={} got={:?} want={:?}", c.1, c.2, g, c.3));
                    }
                }
            }
            Err(e) => {
                // find the failing expression individually
                for c in chunk {
                    cases += 1;
                    match eval_str(&c.2) {
                        Ok(g) if g == c.3 => {}
                        Ok(g) => fail(&c.0, format!("{} expr={} got={:?} want={:?}", c.1, c.2, g, c.3)),
                        Err(e2) => fail(&c.0, format!("{}:error expr={} got={} want={:?}", c.1, c.2, e2.chars().take(100).collect::<String>(), c.3)),
                    }
                }
                let _ = e;
            }
        }
    }
    cases
}

struct Rng(u64);
impl Rng {
    fn next(&mut self) -> u64 {
        self.0 = self.0.wrapping_add(0x9E3779B97F4A7C15);
        let mut z = self.0;
        z = (z ^ (z >> 30)).wrapping_mul(0xBF58476D1CE4E5B9);
        z = (z ^ (z >> 27)).wrapping_mul(0x94D049BB133111EB);
        z ^ (z >> 31)
    }
}

#[test]
fn verif_side_c15() {
    let seed: u64 = std::env::var("VERIF_SEED").ok().and_then(|s| s.parse().ok()).unwrap_or(0);
    let extra: usize = std::env::var("VERIF_ITERS").ok().and_then(|s| s.parse().ok()).unwrap_or(40);
    let p2 = |k: i32| 2f64.powi(k);
    let mut vals: Vec<f64> = vec![
        0.0, -0.0, 1.0, -1.0, 0.5, -0.5, 1.9, -1.9, 255.0, 65536.0,
        p2(31) - 1.0, p2(31), p2(31) + 1.0, -p2(31), -p2(31) - 1.0, p2(32) - 1.0, p2(32), p2(32) + 5.0, -p2(32) - 5.0,
        p2(32) + 0.5, p2(33) + 7.0, p2(53) - 1.0, p2(53), p2(53) + 2.0, -p2(53), p2(62), p2(63), -p2(63), p2(63) + p2(11), p2(64),
        p2(84) + p2(32), p2(83) + p2(31), 1e21, -1e21, 1.5e300, f64::MAX, f64::MIN_POSITIVE, 5e-324,
        f64::NAN, f64::INFINITY, f64::NEG_INFINITY, 4294967301.0, 3000000000.0, -3000000000.0,
    ];
    let mut rng = Rng(seed ^ 0xC15);
    for _ in 0..extra {
        // random doubles with exponents spread over the interesting range
        let e = 1023 + (rng.next() % 90) as u64;
        let bits = (rng.next() & ((1u64 << 52) - 1)) | (e << 52) | ((rng.next() & 1) << 63);
        vals.push(f64::from_bits(bits));
    }
    let shifts: [f64; 9] = [0.0, 1.0, 5.0, 31.0, 32.0, 33.0, -1.0, p2(32) + 3.0, 100.0];
    let mut cases = 0usize;
    let mut fails = 0usize;
    let mut check = |name: &str, expr: String, want: f64| {
        cases += 1;
        let got = eval_num(&expr);
        let ok = matches!(&got, Ok(g) if *g == want);
        if !ok && fails < 12 {
            fails += 1;
            println!("VERIF-SIDE-FAIL obligation=side/C15/{} expr={} got={:?} want={}", name, expr, got, want);
        }
    };
    for &a in &vals {
        let la = js_lit(a);
        let ia = to_int32_spec(a);
        check("BitOr", format!("{} | 0", la), ia as f64);
        check("BitNot", format!("~{}", la), (!ia) as f64);
        check("URShift", format!("{} >>> 0", la), to_uint32_spec(a) as f64);
        check("BitAnd", format!("{} & -1", la), ia as f64);
        check("BitXor", format!("{} ^ 0", la), ia as f64);
        check("BitOr_rhs", format!("0 | {}", la), ia as f64);
        check("BitAnd_rhs", format!("-1 & {}", la), ia as f64);
        check("BitXor_rhs", format!("0 ^ {}", la), ia as f64);
    }
    let lefts: [f64; 7] = [1.0, -1.0, p2(31), p2(32) + 5.0, -p2(31) - 1.0, 123456789.0, p2(53) + 2.0];
    for &l in &lefts {
        for &s in &shifts {
            let (ll, ls) = (js_lit(l), js_lit(s));
            let il = to_int32_spec(l);
            let n = to_uint32_spec(s) & 31;
            check("LShift", format!("{} << {}", ll, ls), il.wrapping_shl(n) as f64);
            check("RShift", format!("{} >> {}", ll, ls), (il >> n) as f64);
            check("URShift", format!("{} >>> {}", ll, ls), (to_uint32_spec(l) >> n) as f64);
        }
    }
    // compound assignment forms go through their own operator table in the compiler
    for &l in &lefts {
        for &sft in &[0.0f64, 1.0, 4.0, 31.0, 33.0, -1.0] {
            let (ll, ls) = (js_lit(l), js_lit(sft));
            let il = to_int32_spec(l);
            let n = to_uint32_spec(sft) & 31;
            check("LShift_assign", format!("let x = {}; x <<= {}; x", ll, ls), il.wrapping_shl(n) as f64);
            check("RShift_assign", format!("let x = {}; x >>= {}; x", ll, ls), (il >> n) as f64);
            check("URShift_assign", format!("let x = {}; x >>>= {}; x", ll, ls), (to_uint32_spec(l) >> n) as f64);
            check("RShift_assign_member", format!("let o = {{ p: {} }}; o.p >>= {}; o.p", ll, ls), (il >> n) as f64);
        }
        let ll = js_lit(l);
        let il = to_int32_spec(l);
        check("BitOr_assign", format!("let x = {}; x |= 0; x", ll), il as f64);
        check("BitAnd_assign", format!("let x = {}; x &= -1; x", ll), il as f64);
        check("BitXor_assign", format!("let x = {}; x ^= 0; x", ll), il as f64);
        check("BitOr_assign_element", format!("let a = [{}]; a[0] |= 0; a[0]", ll), il as f64);
    }
    // operands of other types are converted to numbers first, then to 32-bit integers (expected values written out by hand)
    for (expr, want) in [
        ("true | 0", 1.0), ("null | 0", 0.0), ("undefined | 0", 0.0), ("'4294967301' | 0", 5.0), ("'0x100000001' | 0", 1.0),
        ("'abc' | 0", 0.0), ("'' | 0", 0.0), ("' 12 ' | 0", 12.0), ("~'4294967295'", 0.0), ("~true", -2.0), ("~null", -1.0),
        ("'3000000000' >> 0", -1294967296.0), ("'3000000000' >>> 0", 3000000000.0), ("1 << '33'", 2.0), ("1 << true", 2.0),
        ("'-1' >>> '28'", 15.0), ("true & '3'", 1.0), ("null ^ '4294967297'", 1.0), ("NaN | 0", 0.0), ("Infinity | 0", 0.0),
        ("-Infinity >>> 0", 0.0), ("(-0) | 0", 0.0), ("4294967295.9 | 0", -1.0), ("-4294967295.9 | 0", 1.0), ("2147483647.5 | 0", 2147483647.0),
        ("-2147483648.5 | 0", -2147483648.0), ("0.9999999999999999 | 0", 0.0), ("-0.9999999999999999 | 0", 0.0),
        ("let a = [4294967301]; a[0] | 0", 5.0), ("let o = { p: 3000000000 }; o.p | 0", -1294967296.0),
        ("`${4294967301 | 0}`.length", 1.0), ("let r = 0; switch (4294967301 | 0) { case 5: r = 1; break; default: r = 2; } r", 1.0),
        ("let n = 0; for (let i = 4294967296 | 0; i < 3; i++) { n++; } n", 3.0),
    ] {
        check("converted_operands_and_contexts", expr.to_string(), want);
    }
    // TypeScript enum member initialisers are compiled by their own binary-operator emitter
    for &(l, ls) in &[(-8.0f64, "-8"), (-1.0, "-1"), (2147483648.0, "2147483648"), (4294967301.0, "4294967301"), (3000000000.0, "3000000000"), (5.0, "5")] {
        let il = to_int32_spec(l);
        for &sft in &[0u32, 1, 2, 31] {
            check("enum_initialiser_URShift", format!("enum E {{ A = {} >>> {} }} E.A", ls, sft), (to_uint32_spec(l) >> sft) as f64);
            check("enum_initialiser_RShift", format!("enum E {{ A = {} >> {} }} E.A", ls, sft), (il >> sft) as f64);
            check("enum_initialiser_LShift", format!("enum E {{ A = {} << {} }} E.A", ls, sft), il.wrapping_shl(sft) as f64);
        }
        check("enum_initialiser_BitOr", format!("enum E {{ A = {} | 0 }} E.A", ls), il as f64);
        check("enum_initialiser_BitAnd", format!("enum E {{ A = {} & -1 }} E.A", ls), il as f64);
        check("enum_initialiser_BitXor", format!("enum E {{ A = {} ^ 0 }} E.A", ls), il as f64);
        check("enum_initialiser_BitNot", format!("enum E {{ A = ~{} }} E.A", ls), (!il) as f64);
        check("enum_initialiser_member_reference", format!("enum E {{ A = {}, B = A >>> 1 }} E.B", ls), (to_uint32_spec(l) >> 1) as f64);
    }
    // parseInt's radix argument is converted with ToInt32 as well
    for (radix, digits, val) in [(2f64, "10", 2f64), (36.0, "z", 35.0), (16.0, "ff", 255.0), (10.0, "42", 42.0)] {
        for wrap in [0f64, 4294967296.0, -4294967296.0, 8589934592.0, 4294967296.0 * 1048576.0] {
            check("parseInt_radix", format!("parseInt(\"{}\", {})", digits, js_lit(radix + wrap)), val);
        }
    }
    // printing / parsing / formatting clauses (testing against exact decimal arithmetic; not proof)
    let mut seen: std::collections::BTreeSet<String> = Default::default();
    let mut nf = 0usize;
    let mut fail2 = |name: &str, what: String| {
        // one report per (obligation, signature): the signature is the first word of `what`
        let sig = what.split_whitespace().next().unwrap_or("").to_string();
        if seen.insert(format!("{} {}", name, sig)) && nf < 60 {
            nf += 1;
            println!("VERIF-SIDE-FAIL obligation=side/C15/{} {}", name, what);
        }
    };
    std::panic::set_hook(Box::new(|_| {}));
    let more = number_format_battery(seed, extra, &mut fail2);
    let _ = std::panic::take_hook();
    println!("VERIF-SIDE-DONE cases={}", cases + more);
}
