// Native replay battery for the C15 side obligation (DESIGN §4.5): the bitwise operators of the real
// VM must apply ToInt32 / ToUint32 (wrap modulo 2^32) to their operands.  The contract proper sits on
// value::to_int32 / to_uint32 (Kani, all 2^64 bit patterns); this battery is the only link between those
// helpers and the 13 operator sites inside execute_op, which no verifier here can reach.
// Expected values are computed independently with integer arithmetic (i128), never with the code
// under test.  Mounted as a #[cfg(test)] child module of src/lib.rs in a scratch copy.
//   VERIF-SIDE-FAIL obligation=<name> expr=<js> got=<v> want=<v>
//   VERIF-SIDE-DONE cases=<n>
use crate::{Interpreter, JsValue, StepResult};

fn eval_num(src: &str) -> Result<f64, String> {
    let mut interp = Interpreter::new();
    interp.prepare(src, None).map_err(|e| format!("{:?}", e))?;
    loop {
        match interp.step().map_err(|e| format!("{:?}", e))? {
            StepResult::Continue => continue,
            StepResult::Complete(rv) => {
                return match rv.value() {
                    JsValue::Number(n) => Ok(*n),
                    other => Err(format!("non-number {:?}", other)),
                };
            }
            _ => return Err("unexpected step result".to_string()),
        }
    }
}

// exact integer value of a finite f64 after truncation toward zero, as i128 * 2^shift (shift >= 0)
fn to_uint32_spec(x: f64) -> u32 {
    if !x.is_finite() {
        return 0;
    }
    let bits = x.to_bits();
    let neg = (bits >> 63) == 1;
    let e = ((bits >> 52) & 0x7ff) as i32;
    let frac = bits & ((1u64 << 52) - 1);
    if e == 0 {
        return 0; // subnormal or zero: |x| < 1
    }
    let m = (frac | (1u64 << 52)) as u128; // value = m * 2^(e-1075)
    let sh = e - 1075;
    let low: u128 = if sh >= 0 {
        if sh >= 64 { 0 } else { (m << sh) & 0xffff_ffff }
    } else if sh <= -64 {
        0
    } else {
        (m >> (-sh)) & 0xffff_ffff // truncation toward zero of the magnitude
    };
    let low = low as u32;
    if neg { low.wrapping_neg() } else { low }
}
fn to_int32_spec(x: f64) -> i32 {
    to_uint32_spec(x) as i32
}

fn js_lit(x: f64) -> String {
    if x.is_nan() {
        "NaN".to_string()
    } else if x == f64::INFINITY {
        "Infinity".to_string()
    } else if x == f64::NEG_INFINITY {
        "(-Infinity)".to_string()
    } else {
        // exact: an f64 is m * 2^k; print as (m * 2**k) so no decimal parsing is involved
        let bits = x.to_bits();
        let neg = (bits >> 63) == 1;
        let e = ((bits >> 52) & 0x7ff) as i32;
        let frac = bits & ((1u64 << 52) - 1);
        let (m, k) = if e == 0 { (frac, -1074) } else { (frac | (1u64 << 52), e - 1075) };
        format!("({}{} * 2**{})", if neg { "-" } else { "" }, m, k)
    }
}

struct Rng(u64);
impl Rng {
    fn next(&mut self) -> u64 {
        self.0 = self.0.wrapping_add(0x9E3779B97F4A7C15);
        let mut z = self.0;
        z = (z ^ (z >> 30)).wrapping_mul(0xBF58476D1CE4E5B9);
        z = (z ^ (z >> 27)).wrapping_mul(0x94D049BB133111EB);
        z ^ (z >> 31)
    }
}

#[test]
fn verif_side_c15() {
    let seed: u64 = std::env::var("VERIF_SEED").ok().and_then(|s| s.parse().ok()).unwrap_or(0);
    let extra: usize = std::env::var("VERIF_ITERS").ok().and_then(|s| s.parse().ok()).unwrap_or(40);
    let p2 = |k: i32| 2f64.powi(k);
    let mut vals: Vec<f64> = vec![
        0.0, -0.0, 1.0, -1.0, 0.5, -0.5, 1.9, -1.9, 255.0, 65536.0,
        p2(31) - 1.0, p2(31), p2(31) + 1.0, -p2(31), -p2(31) - 1.0, p2(32) - 1.0, p2(32), p2(32) + 5.0, -p2(32) - 5.0,
        p2(32) + 0.5, p2(33) + 7.0, p2(53) - 1.0, p2(53), p2(53) + 2.0, -p2(53), p2(62), p2(63), -p2(63), p2(63) + p2(11), p2(64),
        p2(84) + p2(32), p2(83) + p2(31), 1e21, -1e21, 1.5e300, f64::MAX, f64::MIN_POSITIVE, 5e-324,
        f64::NAN, f64::INFINITY, f64::NEG_INFINITY, 4294967301.0, 3000000000.0, -3000000000.0,
    ];
    let mut rng = Rng(seed ^ 0xC15);
    for _ in 0..extra {
        // random doubles with exponents spread over the interesting range
        let e = 1023 + (rng.next() % 90) as u64;
        let bits = (rng.next() & ((1u64 << 52) - 1)) | (e << 52) | ((rng.next() & 1) << 63);
        vals.push(f64::from_bits(bits));
    }
    let shifts: [f64; 9] = [0.0, 1.0, 5.0, 31.0, 32.0, 33.0, -1.0, p2(32) + 3.0, 100.0];
    let mut cases = 0usize;
    let mut fails = 0usize;
    let mut check = |name: &str, expr: String, want: f64| {
        cases += 1;
        let got = eval_num(&expr);
        let ok = matches!(&got, Ok(g) if *g == want);
        if !ok && fails < 12 {
            fails += 1;
            println!("VERIF-SIDE-FAIL obligation=side/C15/{} expr={} got={:?} want={}", name, expr, got, want);
        }
    };
    for &a in &vals {
        let la = js_lit(a);
        let ia = to_int32_spec(a);
        check("BitOr", format!("{} | 0", la), ia as f64);
        check("BitNot", format!("~{}", la), (!ia) as f64);
        check("URShift", format!("{} >>> 0", la), to_uint32_spec(a) as f64);
        check("BitAnd", format!("{} & -1", la), ia as f64);
        check("BitXor", format!("{} ^ 0", la), ia as f64);
        check("BitOr_rhs", format!("0 | {}", la), ia as f64);
        check("BitAnd_rhs", format!("-1 & {}", la), ia as f64);
        check("BitXor_rhs", format!("0 ^ {}", la), ia as f64);
    }
    let lefts: [f64; 7] = [1.0, -1.0, p2(31), p2(32) + 5.0, -p2(31) - 1.0, 123456789.0, p2(53) + 2.0];
    for &l in &lefts {
        for &s in &shifts {
            let (ll, ls) = (js_lit(l), js_lit(s));
            let il = to_int32_spec(l);
            let n = to_uint32_spec(s) & 31;
            check("LShift", format!("{} << {}", ll, ls), il.wrapping_shl(n) as f64);
            check("RShift", format!("{} >> {}", ll, ls), (il >> n) as f64);
            check("URShift", format!("{} >>> {}", ll, ls), (to_uint32_spec(l) >> n) as f64);
        }
    }
    // compound assignment forms go through their own operator table in the compiler
    for &l in &lefts {
        for &sft in &[0.0f64, 1.0, 4.0, 31.0, 33.0, -1.0] {
            let (ll, ls) = (js_lit(l), js_lit(sft));
            let il = to_int32_spec(l);
            let n = to_uint32_spec(sft) & 31;
            check("LShift_assign", format!("let x = {}; x <<= {}; x", ll, ls), il.wrapping_shl(n) as f64);
            check("RShift_assign", format!("let x = {}; x >>= {}; x", ll, ls), (il >> n) as f64);
            check("URShift_assign", format!("let x = {}; x >>>= {}; x", ll, ls), (to_uint32_spec(l) >> n) as f64);
            check("RShift_assign_member", format!("let o = {{ p: {} }}; o.p >>= {}; o.p", ll, ls), (il >> n) as f64);
        }
        let ll = js_lit(l);
        let il = to_int32_spec(l);
        check("BitOr_assign", format!("let x = {}; x |= 0; x", ll), il as f64);
        check("BitAnd_assign", format!("let x = {}; x &= -1; x", ll), il as f64);
        check("BitXor_assign", format!("let x = {}; x ^= 0; x", ll), il as f64);
        check("BitOr_assign_element", format!("let a = [{}]; a[0] |= 0; a[0]", ll), il as f64);
    }
    // operands of other types are converted to numbers first, then to 32-bit integers (expected values written out by hand)
    for (expr, want) in [
        ("true | 0", 1.0), ("null | 0", 0.0), ("undefined | 0", 0.0), ("'4294967301' | 0", 5.0), ("'0x100000001' | 0", 1.0),
        ("'abc' | 0", 0.0), ("'' | 0", 0.0), ("' 12 ' | 0", 12.0), ("~'4294967295'", 0.0), ("~true", -2.0), ("~null", -1.0),
        ("'3000000000' >> 0", -1294967296.0), ("'3000000000' >>> 0", 3000000000.0), ("1 << '33'", 2.0), ("1 << true", 2.0),
        ("'-1' >>> '28'", 15.0), ("true & '3'", 1.0), ("null ^ '4294967297'", 1.0), ("NaN | 0", 0.0), ("Infinity | 0", 0.0),
        ("-Infinity >>> 0", 0.0), ("(-0) | 0", 0.0), ("4294967295.9 | 0", -1.0), ("-4294967295.9 | 0", 1.0), ("2147483647.5 | 0", 2147483647.0),
        ("-2147483648.5 | 0", -2147483648.0), ("0.9999999999999999 | 0", 0.0), ("-0.9999999999999999 | 0", 0.0),
        ("let a = [4294967301]; a[0] | 0", 5.0), ("let o = { p: 3000000000 }; o.p | 0", -1294967296.0),
        ("`${4294967301 | 0}`.length", 1.0), ("let r = 0; switch (4294967301 | 0) { case 5: r = 1; break; default: r = 2; } r", 1.0),
        ("let n = 0; for (let i = 4294967296 | 0; i < 3; i++) { n++; } n", 3.0),
    ] {
        check("converted_operands_and_contexts", expr.to_string(), want);
    }
    // TypeScript enum member initialisers are compiled by their own binary-operator emitter
    for &(l, ls) in &[(-8.0f64, "-8"), (-1.0, "-1"), (2147483648.0, "2147483648"), (4294967301.0, "4294967301"), (3000000000.0, "3000000000"), (5.0, "5")] {
        let il = to_int32_spec(l);
        for &sft in &[0u32, 1, 2, 31] {
            check("enum_initialiser_URShift", format!("enum E {{ A = {} >>> {} }} E.A", ls, sft), (to_uint32_spec(l) >> sft) as f64);
            check("enum_initialiser_RShift", format!("enum E {{ A = {} >> {} }} E.A", ls, sft), (il >> sft) as f64);
            check("enum_initialiser_LShift", format!("enum E {{ A = {} << {} }} E.A", ls, sft), il.wrapping_shl(sft) as f64);
        }
        check("enum_initialiser_BitOr", format!("enum E {{ A = {} | 0 }} E.A", ls), il as f64);
        check("enum_initialiser_BitAnd", format!("enum E {{ A = {} & -1 }} E.A", ls), il as f64);
        check("enum_initialiser_BitXor", format!("enum E {{ A = {} ^ 0 }} E.A", ls), il as f64);
        check("enum_initialiser_BitNot", format!("enum E {{ A = ~{} }} E.A", ls), (!il) as f64);
        check("enum_initialiser_member_reference", format!("enum E {{ A = {}, B = A >>> 1 }} E.B", ls), (to_uint32_spec(l) >> 1) as f64);
    }
    // parseInt's radix argument is converted with ToInt32 as well
    for (radix, digits, val) in [(2f64, "10", 2f64), (36.0, "z", 35.0), (16.0, "ff", 255.0), (10.0, "42", 42.0)] {
        for wrap in [0f64, 4294967296.0, -4294967296.0, 8589934592.0, 4294967296.0 * 1048576.0] {
            check("parseInt_radix", format!("parseInt(\"{}\", {})", digits, js_lit(radix + wrap)), val);
        }
    }
    println!("VERIF-SIDE-DONE cases={}", cases);
}
