// BOUNDED stand-in (exhaustive up to a stated bound + seeded long random histories; never counted as proved)
// for the part of the collector that neither verifier could decide: Space::mark / sweep / collect and their
// interplay with guards, handles and slot reuse (Kani: no verdict on a 3-object collect in 18 min, DESIGN §2).
// Drives the REAL public Heap / Guard / Gc API and compares with an explicit reachability model:
//   - an object keeps its contents (payload and links) for as long as it is reachable from a live guard,
//   - after collect() exactly the reachable objects are counted live, all others are reset and reusable,
//   - a reused slot comes back with default contents.
// Handles to objects that the model says were reclaimed are leaked (mem::forget), never used again: operations on
// stale handles are a separate, fixed scenario below (a KNOWN FINDING on the unchanged tree).
//   VERIF-ORACLE-FAIL obligation=<name> <history>
//   VERIF-ORACLE-DONE cases=<n>
use super::*;

#[derive(Default)]
struct Obj {
    v: u32,
    links: Vec<Gc<Obj>>,
}
impl Reset for Obj {
    fn reset(&mut self) {
        self.v = 0;
        self.links.clear();
    }
}
impl Traceable for Obj {
    fn trace<F: FnMut(GcPtr<Self>)>(&self, mut visitor: F) {
        for l in &self.links {
            visitor(l.copy_ref());
        }
    }
}

#[derive(Clone, Copy, Debug, PartialEq)]
enum Op {
    NewGuard,
    DropGuard(usize),
    Alloc(usize),
    Link(usize, usize),
    Unlink(usize),
    Guard(usize, usize),
    Unguard(usize, usize),
    Collect,
}

struct MObj {
    payload: u32,
    links: Vec<usize>,
    alive: bool,
    handle: Option<Gc<Obj>>,
}

struct World {
    heap: Heap<Obj>,
    guards: Vec<Option<(Guard<Obj>, Vec<usize>)>>,
    objs: Vec<MObj>,
    next_payload: u32,
}

impl World {
    fn new(threshold: usize) -> Self {
        let heap: Heap<Obj> = Heap::new();
        heap.set_gc_threshold(threshold);
        World { heap, guards: Vec::new(), objs: Vec::new(), next_payload: 1000 }
    }
    fn live_guards(&self) -> Vec<usize> {
        (0..self.guards.len()).filter(|g| self.guards[*g].is_some()).collect()
    }
    fn alive(&self) -> Vec<usize> {
        (0..self.objs.len()).filter(|o| self.objs[*o].alive).collect()
    }
    fn reachable(&self) -> Vec<bool> {
        let mut r = vec![false; self.objs.len()];
        let mut stack: Vec<usize> = Vec::new();
        for g in self.guards.iter().flatten() {
            for &o in &g.1 {
                stack.push(o);
            }
        }
        while let Some(o) = stack.pop() {
            if r[o] {
                continue;
            }
            r[o] = true;
            for &l in &self.objs[o].links {
                stack.push(l);
            }
        }
        r
    }
    // the model's view of a collection: everything unreachable is reclaimed
    fn model_collect(&mut self) {
        let r = self.reachable();
        for o in 0..self.objs.len() {
            if self.objs[o].alive && !r[o] {
                self.objs[o].alive = false;
                if let Some(h) = self.objs[o].handle.take() {
                    core::mem::forget(h); // stale from now on: never touched again
                }
            }
        }
    }
    // an automatic collection may happen inside alloc (threshold): the model mirrors it by collecting first
    fn apply(&mut self, op: Op, auto_collect_possible: bool) -> Result<(), (String, String)> {
        match op {
            Op::NewGuard => {
                let g = self.heap.create_guard();
                self.guards.push(Some((g, Vec::new())));
            }
            Op::DropGuard(g) => {
                self.guards[g] = None;
            }
            Op::Alloc(g) => {
                if auto_collect_possible {
                    // with a positive threshold the allocation may collect first; any object that is unreachable now
                    // may therefore be reclaimed - it is dead in the model from here on either way
                    self.model_collect();
                }
                let id = self.objs.len();
                let payload = self.next_payload;
                self.next_payload += 1;
                let h = match &self.guards[g] {
                    Some((guard, _)) => guard.alloc(),
                    None => return Ok(()),
                };
                {
                    let b = h.borrow();
                    if b.v != 0 || !b.links.is_empty() {
                        return Err(("gc_histories/Guard::alloc/ensures#new_object_has_default_contents".to_string(),
                                    format!("object #{} came back with v={} links={}", id, b.v, b.links.len())));
                    }
                }
                h.borrow_mut().v = payload;
                self.objs.push(MObj { payload, links: Vec::new(), alive: true, handle: Some(h) });
                if let Some((_, roots)) = &mut self.guards[g] {
                    roots.push(id);
                }
            }
            Op::Link(a, b) => {
                let hb = self.objs[b].handle.as_ref().map(|h| h.clone());
                if let (Some(ha), Some(hb)) = (self.objs[a].handle.as_ref(), hb) {
                    ha.borrow_mut().links.push(hb);
                    self.objs[a].links.push(b);
                }
            }
            Op::Unlink(a) => {
                if let Some(ha) = self.objs[a].handle.as_ref() {
                    let popped = ha.borrow_mut().links.pop();
                    drop(popped);
                    self.objs[a].links.pop();
                }
            }
            Op::Guard(g, a) => {
                if let (Some((guard, roots)), Some(ha)) = (self.guards[g].as_mut(), self.objs[a].handle.as_ref()) {
                    guard.guard(ha.clone());
                    roots.push(a);
                }
            }
            Op::Unguard(g, a) => {
                if let (Some((guard, roots)), Some(ha)) = (self.guards[g].as_mut(), self.objs[a].handle.as_ref()) {
                    let r = guard.unguard(ha);
                    let pos = roots.iter().position(|x| *x == a);
                    if r != pos.is_some() {
                        return Err(("gc_histories/Guard::unguard/ensures#true_iff_was_guarded".to_string(), format!("unguard(obj #{}) returned {}", a, r)));
                    }
                    if let Some(p) = pos {
                        roots.swap_remove(p);
                    }
                }
            }
            Op::Collect => {
                self.heap.collect();
                // "all others are reset": an object the model says is unreachable must read as default through the
                // (from now on stale, never used again) handle - reading is memory-safe, the slot still exists
                let r = self.reachable();
                for o in 0..self.objs.len() {
                    if self.objs[o].alive && !r[o] {
                        if let Some(h) = &self.objs[o].handle {
                            let b = h.borrow();
                            if b.v != 0 || !b.links.is_empty() {
                                return Err(("gc_histories/Heap::collect/ensures#unreachable_object_is_reset".to_string(),
                                            format!("unreachable object #{} still has v={} links={} after collect()", o, b.v, b.links.len())));
                            }
                        }
                    }
                }
                self.model_collect();
                let live = self.alive().len();
                let st = self.heap.stats();
                if st.live_objects != live {
                    return Err(("gc_histories/Heap::collect/ensures#exactly_the_reachable_objects_are_counted_live".to_string(),
                                format!("stats: live={} total={} pooled={}, model: {} reachable", st.live_objects, st.total_objects, st.pooled_objects, live)));
                }
            }
        }
        self.check_contents()
    }
    fn check_contents(&self) -> Result<(), (String, String)> {
        // objects the model considers alive AND reachable must keep payload and links (an alive-but-unreachable object
        // may legitimately have been reclaimed by an automatic collection only after model_collect, handled in apply)
        let r = self.reachable();
        for o in 0..self.objs.len() {
            if !(self.objs[o].alive && r[o]) {
                continue;
            }
            if let Some(h) = &self.objs[o].handle {
                let b = h.borrow();
                if b.v != self.objs[o].payload {
                    return Err(("gc_histories/Heap::collect/ensures#reachable_object_keeps_contents".to_string(),
                                format!("reachable object #{} has v={} want {}", o, b.v, self.objs[o].payload)));
                }
                let got: Vec<u32> = b.links.iter().map(|l| l.borrow().v).collect();
                let want: Vec<u32> = self.objs[o].links.iter().map(|l| self.objs[*l].payload).collect();
                if got != want {
                    return Err(("gc_histories/Heap::collect/ensures#reachable_object_keeps_links".to_string(),
                                format!("reachable object #{} links to payloads {:?} want {:?}", o, got, want)));
                }
            }
        }
        Ok(())
    }
    fn finish(mut self, drop_heap_first: bool) {
        // "dropping the heap while handles remain": must not crash
        let handles: Vec<Gc<Obj>> = self.objs.iter_mut().filter_map(|o| o.handle.take()).collect();
        let guards: Vec<Guard<Obj>> = self.guards.drain(..).flatten().map(|g| g.0).collect();
        if drop_heap_first {
            drop(self.heap);
            drop(handles);
            drop(guards);
        } else {
            drop(guards);
            drop(handles);
            drop(self.heap);
        }
    }
}

fn enabled_ops(w: &World, max_guards: usize, max_objs: usize) -> Vec<Op> {
    let mut ops = Vec::new();
    let lg = w.live_guards();
    let al = w.alive();
    if w.guards.len() < max_guards {
        ops.push(Op::NewGuard);
    }
    for &g in &lg {
        ops.push(Op::DropGuard(g));
        if w.objs.len() < max_objs {
            ops.push(Op::Alloc(g));
        }
        for &a in &al {
            ops.push(Op::Guard(g, a));
            ops.push(Op::Unguard(g, a));
        }
    }
    for &a in &al {
        for &b in &al {
            ops.push(Op::Link(a, b));
        }
        if !w.objs[a].links.is_empty() {
            ops.push(Op::Unlink(a));
        }
    }
    ops.push(Op::Collect);
    ops
}

fn replay(history: &[Op], threshold: usize) -> (World, Result<(), (String, String)>) {
    let mut w = World::new(threshold);
    for &op in history {
        if let Err(e) = w.apply(op, threshold > 0) {
            return (w, Err(e));
        }
    }
    (w, Ok(()))
}

fn explore(history: &mut Vec<Op>, depth: usize, threshold: usize, max_guards: usize, max_objs: usize, cases: &mut usize,
           fails: &mut Vec<(String, String)>) {
    let (w, r) = replay(history, threshold);
    *cases += 1;
    if let Err((name, what)) = r {
        fails.push((name, format!("threshold={} history={:?} :: {}", threshold, history, what)));
        core::mem::forget(w);
        return;
    }
    if depth == 0 || fails.len() > 20 {
        w.finish(*cases % 2 == 0);
        return;
    }
    let ops = enabled_ops(&w, max_guards, max_objs);
    w.finish(*cases % 2 == 0);
    for op in ops {
        // prune: two collections in a row, guard immediately dropped
        if op == Op::Collect && history.last() == Some(&Op::Collect) {
            continue;
        }
        history.push(op);
        explore(history, depth - 1, threshold, max_guards, max_objs, cases, fails);
        history.pop();
    }
}

struct Rng(u64);
impl Rng {
    fn next(&mut self) -> u64 {
        self.0 = self.0.wrapping_add(0x9E3779B97F4A7C15);
        let mut z = self.0;
        z = (z ^ (z >> 30)).wrapping_mul(0xBF58476D1CE4E5B9);
        z = (z ^ (z >> 27)).wrapping_mul(0x94D049BB133111EB);
        z ^ (z >> 31)
    }
    fn below(&mut self, n: usize) -> usize {
        if n == 0 { 0 } else { (self.next() % n as u64) as usize }
    }
}

fn random_history(rng: &mut Rng, len: usize, threshold: usize, max_guards: usize, max_objs: usize, fails: &mut Vec<(String, String)>) {
    let mut w = World::new(threshold);
    let mut trace: Vec<Op> = Vec::new();
    for _ in 0..len {
        let ops = enabled_ops(&w, max_guards, max_objs);
        // bias towards allocation so that chunk (256) and guard-pool (16) boundaries are crossed
        let allocs: Vec<Op> = ops.iter().copied().filter(|o| matches!(o, Op::Alloc(_))).collect();
        let op = if !allocs.is_empty() && rng.below(10) < 6 { allocs[rng.below(allocs.len())] } else { ops[rng.below(ops.len())] };
        trace.push(op);
        if let Err((name, what)) = w.apply(op, threshold > 0) {
            let tail: Vec<Op> = trace.iter().rev().take(12).rev().copied().collect();
            fails.push((name, format!("threshold={} random history of {} ops ending {:?} :: {}", threshold, trace.len(), tail, what)));
            core::mem::forget(w);
            return;
        }
    }
    w.finish(rng.below(2) == 0);
}

// directed: the guard-storage pool (16 entries): many guards with root lists of different sizes are dropped in a
// row, then new guards are created - a new guard must start with no roots and nothing may stay alive
fn guard_pool_scenarios(fails: &mut Vec<(String, String)>, cases: &mut usize) {
    for &(ng, order_desc) in &[(15usize, false), (16, false), (17, true), (17, false), (20, true), (40, false)] {
        *cases += 1;
        let heap: Heap<Obj> = Heap::new();
        heap.set_gc_threshold(0);
        let mut guards = Vec::new();
        let mut total = 0usize;
        for g in 0..ng {
            let guard = heap.create_guard();
            // root lists of increasing (or decreasing) length, so that storage buffers differ in capacity
            let n = if order_desc { ng - g } else { g + 1 };
            for _ in 0..n {
                let h = guard.alloc();
                h.borrow_mut().v = 5;
                core::mem::forget(h);
                total += 1;
            }
            guards.push(guard);
        }
        heap.collect();
        if heap.stats().live_objects != total {
            fails.push(("gc_histories/Heap::collect/ensures#exactly_the_reachable_objects_are_counted_live".to_string(),
                        format!("{} guards rooting {} objects, stats say live={}", ng, total, heap.stats().live_objects)));
        }
        // drop all guards in a row (no guard created in between), then create fresh ones
        for guard in guards.drain(..) {
            drop(guard);
        }
        let mut fresh = Vec::new();
        for _ in 0..(ng + 2) {
            let guard = heap.create_guard();
            if guard.len() != 0 {
                fails.push(("gc_histories/Heap::create_guard/ensures#new_guard_has_no_roots".to_string(),
                            format!("after dropping {} guards in a row a fresh guard starts with {} roots", ng, guard.len())));
                break;
            }
            fresh.push(guard);
        }
        heap.collect();
        if heap.stats().live_objects != 0 {
            fails.push(("gc_histories/Heap::collect/ensures#exactly_the_reachable_objects_are_counted_live".to_string(),
                        format!("{} guards dropped in a row, {} fresh guards with no roots: stats say live={} (want 0)", ng, fresh.len(), heap.stats().live_objects)));
        }
    }
}

// KNOWN FINDING on the unchanged tree (DESIGN §4.4): two stale handles to a reclaimed slot, dropped after the slot
// was reused, take the new tenant's handle count to zero although it is still rooted.
fn stale_handle_scenario(fails: &mut Vec<(String, String)>) {
    let heap: Heap<Obj> = Heap::new();
    heap.set_gc_threshold(0);
    let g1 = heap.create_guard();
    let a = g1.alloc();
    a.borrow_mut().v = 1;
    let a2 = a.clone();
    drop(g1);
    heap.collect(); // A is unreachable: reclaimed; a, a2 are stale handles
    let g2 = heap.create_guard();
    let b = g2.alloc(); // reuses A's slot
    b.borrow_mut().v = 2;
    drop(a);
    drop(a2);
    heap.collect();
    let ok = b.borrow().v == 2 && heap.stats().live_objects == 1;
    if !ok {
        fails.push(("gc_histories/Gc::drop/ensures#stale_handles_do_not_affect_the_slots_new_tenant".to_string(),
                    format!("sig=stale-handle-drop-after-slot-reuse rooted object B has v={} (want 2), live_objects={} (want 1)", b.borrow().v, heap.stats().live_objects)));
    }
    core::mem::forget(b);
    drop(g2);
}

// directed: heaps whose size sits on / next to a chunk boundary (256 slots per chunk)
fn chunk_boundary_scenarios(fails: &mut Vec<(String, String)>, cases: &mut usize) {
    for n in [1usize, 63, 64, 65, 128, 129, 192, 193, 255, 256, 257, 511, 512, 513, 768, 1023, 1024, 1025] {
        *cases += 1;
        let heap: Heap<Obj> = Heap::new();
        heap.set_gc_threshold(0);
        let keep = heap.create_guard();
        let tmp = heap.create_guard();
        let mut hs = Vec::new();
        for i in 0..n {
            // every third object is garbage after `tmp` is dropped
            let h = if i % 3 == 2 { tmp.alloc() } else { keep.alloc() };
            h.borrow_mut().v = 7000 + i as u32;
            hs.push(h);
        }
        let kept = (0..n).filter(|i| i % 3 != 2).count();
        let st = heap.stats();
        if st.live_objects != n || st.total_objects != n {
            fails.push(("gc_histories/Heap::collect/ensures#exactly_the_reachable_objects_are_counted_live".to_string(),
                        format!("{} objects allocated, before any collection stats say live={} total={}", n, st.live_objects, st.total_objects)));
        }
        drop(tmp);
        heap.collect();
        let st = heap.stats();
        if st.live_objects != kept {
            fails.push(("gc_histories/Heap::collect/ensures#exactly_the_reachable_objects_are_counted_live".to_string(),
                        format!("{} objects, {} still rooted after dropping a guard and collecting, stats say live={} total={} pooled={}", n, kept, st.live_objects, st.total_objects, st.pooled_objects)));
        }
        for (i, h) in hs.iter().enumerate() {
            if i % 3 != 2 && h.borrow().v != 7000 + i as u32 {
                fails.push(("gc_histories/Heap::collect/ensures#reachable_object_keeps_contents".to_string(),
                            format!("{} objects: rooted object #{} has v={}", n, i, h.borrow().v)));
                break;
            }
        }
        // the reclaimed slots are reusable and come back clean
        let again = heap.create_guard();
        for _ in 0..(n - kept) {
            let h = again.alloc();
            if h.borrow().v != 0 {
                fails.push(("gc_histories/Guard::alloc/ensures#new_object_has_default_contents".to_string(), format!("{} objects: reused slot has v={}", n, h.borrow().v)));
                break;
            }
            core::mem::forget(h);
        }
        let st = heap.stats();
        if st.total_objects != n || st.live_objects != n {
            fails.push(("gc_histories/Heap::collect/ensures#exactly_the_reachable_objects_are_counted_live".to_string(),
                        format!("{} objects: after re-allocating the {} reclaimed slots stats say live={} total={} (want {} / {}: slots must be reused)", n, n - kept, st.live_objects, st.total_objects, n, n)));
        }
        for (i, h) in hs.into_iter().enumerate() {
            if i % 3 == 2 { core::mem::forget(h); } else { drop(h); }
        }
    }
}

#[test]
fn verif_oracle_gc_histories() {
    let seed: u64 = std::env::var("VERIF_SEED").ok().and_then(|s| s.parse().ok()).unwrap_or(0);
    let depth: usize = std::env::var("VERIF_GC_DEPTH").ok().and_then(|s| s.parse().ok()).unwrap_or(5);
    let randoms: usize = std::env::var("VERIF_GC_RANDOM").ok().and_then(|s| s.parse().ok()).unwrap_or(60);
    let mut cases = 0usize;
    let mut fails: Vec<(String, String)> = Vec::new();
    // exhaustive: every history of <= depth operations over <= 2 guards and <= 3 objects, collection only when asked
    explore(&mut Vec::new(), depth, 0, 2, 3, &mut cases, &mut fails);
    // ... and every history of <= depth-1 operations over <= 3 guards (guard storage is pooled and reused)
    explore(&mut Vec::new(), depth.saturating_sub(1), 0, 3, 3, &mut cases, &mut fails);
    // the same, one operation shorter, with a collection on EVERY allocation (threshold 1)
    explore(&mut Vec::new(), depth.saturating_sub(1), 1, 2, 3, &mut cases, &mut fails);
    // long random histories crossing the chunk (256) and guard-pool (16) boundaries
    let mut rng = Rng(seed ^ 0xC13);
    for i in 0..randoms {
        let threshold = [0usize, 1, 2, 3, 5, 7, 100][i % 7];
        random_history(&mut rng, 700, threshold, 40, 600, &mut fails);
        cases += 1;
    }
    chunk_boundary_scenarios(&mut fails, &mut cases);
    guard_pool_scenarios(&mut fails, &mut cases);
    stale_handle_scenario(&mut fails);
    cases += 1;
    let mut seen = std::collections::BTreeSet::new();
    for (name, input) in &fails {
        if seen.insert(name.clone()) {
            println!("VERIF-ORACLE-FAIL obligation={} {}", name, input);
        }
    }
    println!("VERIF-ORACLE-DONE cases={}", cases);
}
