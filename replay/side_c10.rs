// Native replay battery for the C10 side obligation (DESIGN §4.1): the register-bound construct
// families compiled by compile_* (which no verifier here can ingest) either behave like their small
// counterparts or are refused with an explicit limit error - never a wrong value, a clobbered
// variable or a panic.  This is the only link between the contracted allocator
// (reserve_registers / alloc_register, Verus) and its callers' `len as u8` narrowing.
// Expected values are closed forms computed here, never by the code under test.
//   VERIF-SIDE-FAIL obligation=side/C10/<family> n=<size> got=<..> want=<..>
//   VERIF-SIDE-DONE cases=<n>
use crate::{Interpreter, JsValue, StepResult};

#[derive(Debug)]
enum Outcome {
    Num(f64),
    Str(String),
    Other(String),
    Err(String),
    Panic(String),
}

fn run(src: &str) -> Outcome {
    let src = src.to_string();
    let r = std::panic::catch_unwind(move || {
        let mut interp = Interpreter::new();
        if let Err(e) = interp.prepare(&src, None) {
            return Outcome::Err(format!("{:?}", e));
        }
        let mut steps = 0u64;
        loop {
            steps += 1;
            if steps > 50_000_000 {
                return Outcome::Other("step budget exhausted".to_string());
            }
            match interp.step() {
                Err(e) => return Outcome::Err(format!("{:?}", e)),
                Ok(StepResult::Continue) => continue,
                Ok(StepResult::Complete(rv)) => {
                    return match rv.value() {
                        JsValue::Number(n) => Outcome::Num(*n),
                        JsValue::String(s) => Outcome::Str(s.as_str().to_string()),
                        other => Outcome::Other(format!("{:?}", other)),
                    };
                }
                Ok(_) => return Outcome::Other("unexpected step result".to_string()),
            }
        }
    });
    match r {
        Ok(o) => o,
        Err(p) => {
            let msg = p.downcast_ref::<String>().cloned().or_else(|| p.downcast_ref::<&str>().map(|s| s.to_string()));
            Outcome::Panic(msg.unwrap_or_else(|| "panic".to_string()))
        }
    }
}

fn list(n: usize, f: impl Fn(usize) -> String) -> String {
    (0..n).map(f).collect::<Vec<_>>().join(",")
}

// Every program returns `sentinel * 1000000 + value` where sentinel is a live surrounding variable that
// must survive, and value is the closed form below.
fn programs(n: usize) -> Vec<(&'static str, String, f64)> {
    let nn = n as f64;
    let sum = if n == 0 { 0.0 } else { nn * (nn - 1.0) / 2.0 };
    let mut v = Vec::new();
    v.push(("array_literal",
            format!("let keep = 7; let a = [{}]; let s = 0; for (let i = 0; i < a.length; i++) {{ s += a[i]; }} keep * 1000000 + s + a.length", list(n, |i| i.to_string())),
            7.0 * 1e6 + sum + nn));
    v.push(("call_arguments",
            format!("let keep = 7; function f() {{ let s = 0; for (let i = 0; i < arguments.length; i++) {{ s += arguments[i]; }} return s + arguments.length; }} let r = f({}); keep * 1000000 + r", list(n, |i| i.to_string())),
            7.0 * 1e6 + sum + nn));
    v.push(("template_literal",
            format!("let keep = 7; let t = `{}`; keep * 1000000 + t.length", (0..n).map(|i| format!("${{{}}}", i % 10)).collect::<String>()),
            7.0 * 1e6 + nn));
    if n > 0 {
        v.push(("function_parameters",
                format!("let keep = 7; function g({}) {{ return p0 + p{} + {}; }} let r = g({}); keep * 1000000 + r",
                        list(n, |i| format!("p{}", i)), n - 1, n, list(n, |i| i.to_string())),
                7.0 * 1e6 + 0.0 + (nn - 1.0) + nn));
        v.push(("arrow_parameters",
                format!("let keep = 7; let g = ({}) => p0 + p{} + {}; let r = g({}); keep * 1000000 + r",
                        list(n, |i| format!("p{}", i)), n - 1, n, list(n, |i| i.to_string())),
                7.0 * 1e6 + 0.0 + (nn - 1.0) + nn));
        v.push(("constructor_parameters",
                format!("let keep = 7; class C {{ v: number; constructor({}) {{ this.v = p0 + p{} + {}; }} }} let r = new C({}).v; keep * 1000000 + r",
                        list(n, |i| format!("p{}: number", i)), n - 1, n, list(n, |i| i.to_string())),
                7.0 * 1e6 + 0.0 + (nn - 1.0) + nn));
        v.push(("tagged_template",
                format!("let keep = 7; function tag(strs, ...vals) {{ let s = 0; for (let i = 0; i < vals.length; i++) {{ s += vals[i]; }} return s + vals.length; }} let r = tag`{}`; keep * 1000000 + r",
                        (0..n).map(|i| format!("${{{}}}", i)).collect::<Vec<_>>().join(" ")),
                7.0 * 1e6 + sum + nn));
    }
    // the other call shapes with a literal argument list: each either passes the n arguments or is refused
    v.push(("super_call_arguments",
            format!("let keep = 7; class A {{ v: number; constructor() {{ let s = 0; for (let i = 0; i < arguments.length; i++) {{ s += arguments[i]; }} this.v = s + arguments.length; }} }} class B extends A {{ constructor(p: number, q: number, r: number) {{ super({}); }} }} let r = new B(1, 2, 3).v; keep * 1000000 + r", list(n, |i| i.to_string())),
            7.0 * 1e6 + sum + nn));
    v.push(("new_arguments",
            format!("let keep = 7; function C() {{ let s = 0; for (let i = 0; i < arguments.length; i++) {{ s += arguments[i]; }} this.v = s + arguments.length; }} let r = new C({}).v; keep * 1000000 + r", list(n, |i| i.to_string())),
            7.0 * 1e6 + sum + nn));
    v.push(("method_call_arguments",
            format!("let keep = 7; let o = {{ k: 1, m() {{ let s = 0; for (let i = 0; i < arguments.length; i++) {{ s += arguments[i]; }} return s + arguments.length + this.k - 1; }} }}; function h(p: number, q: number, u: number) {{ return o.m({}); }} let r = h(1, 2, 3); keep * 1000000 + r", list(n, |i| i.to_string())),
            7.0 * 1e6 + sum + nn));
    // spread arguments: the argument count is only known at run time and must not be narrowed on the way
    let mk = format!("let xs = []; for (let i = 0; i < {}; i++) {{ xs.push(i); }}", n);
    v.push(("spread_call_arguments",
            format!("let keep = 7; {} function f(...a) {{ let s = 0; for (let i = 0; i < a.length; i++) {{ s += a[i]; }} return s + a.length; }} let r = f(...xs); keep * 1000000 + r", mk),
            7.0 * 1e6 + sum + nn));
    v.push(("spread_call_arguments_mixed",
            format!("let keep = 7; {} function f(...a) {{ let s = 0; for (let i = 0; i < a.length; i++) {{ s += a[i]; }} return s + a.length; }} let r = f(1, ...xs, 2); keep * 1000000 + r", mk),
            7.0 * 1e6 + sum + 3.0 + nn + 2.0));
    v.push(("spread_new_arguments",
            format!("let keep = 7; {} function C() {{ this.v = arguments.length * 2 + (arguments.length > 0 ? arguments[arguments.length - 1] : 0); }} let r = new C(...xs).v; keep * 1000000 + r", mk),
            7.0 * 1e6 + nn * 2.0 + if n > 0 { nn - 1.0 } else { 0.0 }));
    v.push(("spread_native_call",
            format!("let keep = 7; {} let r = Math.max(-1, ...xs); keep * 1000000 + r + 1", mk),
            7.0 * 1e6 + nn));
    v.push(("spread_method_call",
            format!("let keep = 7; {} let o = {{ m(...a) {{ return a.length; }} }}; let r = o.m(...xs); keep * 1000000 + r", mk),
            7.0 * 1e6 + nn));
    // a 32-bit width that is not a size: enum auto-increment continues past i32 / u32
    v.push(("enum_auto_increment_past_32_bits",
            format!("let keep = 7; enum E {{ A = 2147483646, B, C, D }} enum F {{ A = 4294967296, B }} enum G {{ A = -10, B }} let r = (E.C === 2147483648 && E.D === 2147483649 && F.B === 4294967297 && G.B === -9 && E[2147483648] === 'C') ? {} : -1; keep * 1000000 + r", n),
            7.0 * 1e6 + nn));
    // limits are per construct, never cumulative: long sequences of individually small statements
    v.push(("call_sequence",
            format!("let keep = 7; function f(a, b) {{ return a + b; }} let s = 0; {} keep * 1000000 + s",
                    (0..n).map(|i| format!("s += f({}, 1);", i)).collect::<String>()),
            7.0 * 1e6 + sum + nn));
    v.push(("method_call_sequence",
            format!("let keep = 7; let o = {{ m(a, b) {{ return a + b; }} }}; let s = 0; {} keep * 1000000 + s",
                    (0..n).map(|i| format!("s += o.m({}, 1);", i)).collect::<String>()),
            7.0 * 1e6 + sum + nn));
    v.push(("array_literal_sequence",
            format!("let keep = 7; let s = 0; {} keep * 1000000 + s",
                    (0..n).map(|i| format!("s += [{}, 1, 2].length;", i)).collect::<String>()),
            7.0 * 1e6 + 3.0 * nn));
    v.push(("template_literal_sequence",
            format!("let keep = 7; let s = 0; let x = 5; {} keep * 1000000 + s",
                    (0..n).map(|_| "s += `a${x}b${x}`.length;".to_string()).collect::<String>()),
            7.0 * 1e6 + 4.0 * nn));
    v.push(("new_expression_sequence",
            format!("let keep = 7; class P {{ v: number; constructor(a, b) {{ this.v = a + b; }} }} let s = 0; {} keep * 1000000 + s",
                    (0..n).map(|i| format!("s += new P({}, 1).v;", i)).collect::<String>()),
            7.0 * 1e6 + sum + nn));
    v.push(("object_literal_sequence",
            format!("let keep = 7; let s = 0; {} keep * 1000000 + s",
                    (0..n).map(|i| format!("s += {{a: {}, b: 1}}.a;", i)).collect::<String>()),
            7.0 * 1e6 + sum));
    v.push(("computed_assignment_sequence",
            format!("let keep = 7; let o = {{}}; let k = 'p'; {} let s = 0; for (let x in o) {{ s += o[x]; }} keep * 1000000 + s + Object.keys(o).length",
                    (0..n).map(|i| format!("o[k + {}] = {};", i, i)).collect::<String>()),
            7.0 * 1e6 + sum + nn));
    v.push(("declaration_sequence",
            format!("let keep = 7; {} keep * 1000000 + {}",
                    (0..n).map(|i| format!("let v{} = {};", i, i)).collect::<String>(),
                    if n == 0 { "0".to_string() } else { format!("v0 + v{} + {}", n - 1, n) }),
            7.0 * 1e6 + if n == 0 { 0.0 } else { (nn - 1.0) + nn }));
    v.push(("switch_cases",
            format!("let keep = 7; function sw(x) {{ switch (x) {{ {} default: return -1; }} }} keep * 1000000 + sw({}) + sw(0) + {}",
                    (0..n).map(|i| format!("case {}: return {};", i, i)).collect::<String>(),
                    if n == 0 { 0 } else { n - 1 }, n),
            7.0 * 1e6 + if n == 0 { -1.0 + -1.0 } else { (nn - 1.0) + 0.0 } + nn));
    v.push(("array_pattern_rest",
            format!("let keep = 7; let arr = [{}]; let [{} ...rest] = arr; keep * 1000000 + rest.length * 1000 + rest[0] + {}",
                    list(n + 2, |i| i.to_string()), (0..n).map(|i| format!("q{},", i)).collect::<String>(), n),
            7.0 * 1e6 + 2000.0 + nn + nn));
    v.push(("object_literal",
            format!("let keep = 7; let o = {{{}}}; let s = 0; for (let k in o) {{ s += o[k]; }} keep * 1000000 + s + Object.keys(o).length", list(n, |i| format!("k{}: {}", i, i))),
            7.0 * 1e6 + sum + nn));
    v
}

// constant-pool / instruction-count scale (the property's N >= 70000): long sequences of small statements
fn wide_programs(n: usize) -> Vec<(&'static str, String, f64)> {
    let nn = n as f64;
    let mut v = Vec::new();
    v.push(("plain_statement_sequence",
            format!("let keep = 7; let s = 0; {} keep * 100000000 + s", "s += 1;".repeat(n)),
            7.0 * 1e8 + nn));
    v.push(("distinct_number_constants_sequence",
            format!("let keep = 7; let s = 0; {} keep * 100000000 + s", (0..n).map(|i| format!("s += {}.5 - {}.5 + 1;", 1000 + i, 1000 + i)).collect::<String>()),
            7.0 * 1e8 + nn));
    v.push(("distinct_string_constants_sequence",
            format!("let keep = 7; let s = 0; {} keep * 100000000 + s", (0..n).map(|i| format!("s += 'k{}'.length - {} + 1;", i, 1 + i.to_string().len())).collect::<String>()),
            7.0 * 1e8 + nn));
    v
}

// many small functions: no single chunk is large, but the interpreter as a whole sees `outer * inner` distinct
// identifiers and strings (crossing 2^16 interpreter-wide); a binding declared afterwards must still resolve
fn many_small_functions(outer: usize, inner: usize) -> (String, f64) {
    let mut src = String::from("let keep = 7; let acc = 0;\n");
    for o in 0..outer {
        src.push_str(&format!("function o{}() {{ ", o));
        for i in 0..inner {
            src.push_str(&format!("function i{}_{}() {{ return 'q{}_{}'.length; }} ", o, i, o, i));
        }
        src.push_str(&format!("return i{}_0(); }}\nacc += o{}() > 0 ? 1 : 0;\n", o, o));
    }
    src.push_str("let lateTotal = 41; function useLate() { return lateTotal + 1; }\nkeep * 100000000 + acc * 1000 + useLate()");
    (src, 7.0 * 1e8 + outer as f64 * 1000.0 + 42.0)
}

// Deep nesting must work or be refused with an explicit limit error - never abort the process.  A stack overflow
// cannot be caught in-process, so each case runs in a CHILD process (this test binary, the ignored test below) with an
// 8 MiB thread stack (the default main-thread stack).
fn deep_program(shape: &str, d: usize) -> (String, f64) {
    match shape {
        "parentheses" => (format!("let keep = 7; let x = {}1{}; keep * 10 + x", "(".repeat(d), ")".repeat(d)), 71.0),
        "array_literals" => (format!("let keep = 7; let a = {}1{}; keep * 10 + 1", "[".repeat(d), "]".repeat(d)), 71.0),
        "blocks" => (format!("let keep = 7; let q = 0; {} q = 1; {} keep * 10 + q", "{".repeat(d), "}".repeat(d)), 71.0),
        "function_declarations" => (format!("let keep = 7; {} {} keep * 10 + 1", (0..d).map(|i| format!("function f{}() {{", i)).collect::<String>(), "}".repeat(d)), 71.0),
        "unary_chain" => (format!("let keep = 7; let x = {}1; keep * 10 + x", "- ".repeat(d - d % 2)), 71.0),
        "binary_left_chain" => (format!("let keep = 7; let x = 1{}; keep * 10 + x - {}", " + 1".repeat(d), d), 71.0),
        "member_chain" => (format!("let keep = 7; let o: any = {{}}; o.p = o; let x = o{}; keep * 10 + (x === o ? 1 : 0)", ".p".repeat(d)), 71.0),
        _ => (String::from("1"), 1.0),
    }
}

#[test]
#[ignore]
fn verif_side_c10_deep_child() {
    let shape = std::env::var("VERIF_SHAPE").unwrap_or_default();
    let d: usize = std::env::var("VERIF_DEPTH").ok().and_then(|s| s.parse().ok()).unwrap_or(1);
    let (src, want) = deep_program(&shape, d);
    match run(&src) {
        Outcome::Num(v) if v == want => println!("VERIF-CHILD ok"),
        Outcome::Err(e) if e.to_lowercase().contains("too many") || e.to_lowercase().contains("limit") || e.to_lowercase().contains("deep") || e.to_lowercase().contains("nest") => println!("VERIF-CHILD refused"),
        other => println!("VERIF-CHILD wrong {:?}", format!("{:?}", other).chars().take(160).collect::<String>()),
    }
}

fn deep_nesting_cases(fail: &mut dyn FnMut(String)) -> usize {
    let exe = match std::env::current_exe() { Ok(e) => e, Err(_) => return 0 };
    let mut cases = 0;
    for shape in ["parentheses", "array_literals", "blocks", "function_declarations", "unary_chain", "binary_left_chain", "member_chain"] {
        let depths: [usize; 3] = if shape == "binary_left_chain" || shape == "member_chain" { [50, 20000, 200000] } else { [50, 1000, 20000] };
        for d in depths {
            cases += 1;
            let out = std::process::Command::new(&exe)
                .args(["verif_side_c10_deep_child", "--ignored", "--nocapture", "--test-threads", "1"])
                .env("VERIF_SHAPE", shape).env("VERIF_DEPTH", d.to_string()).env("RUST_MIN_STACK", "8388608")
                .output();
            match out {
                Ok(o) => {
                    let text = String::from_utf8_lossy(&o.stdout).to_string();
                    if text.contains("VERIF-CHILD ok") || (d > 50 && text.contains("VERIF-CHILD refused")) {
                        continue;
                    }
                    let err = String::from_utf8_lossy(&o.stderr).to_string();
                    let sig = if err.contains("overflowed its stack") || !o.status.success() && !text.contains("VERIF-CHILD") { "process-aborted:stack-overflow" } else { "wrong-outcome" };
                    let detail = text.lines().find(|l| l.contains("VERIF-CHILD")).unwrap_or("").to_string();
                    fail(format!("VERIF-SIDE-FAIL obligation=side/C10/deep_nesting_{} sig={} depth={} {} (must work or be refused with an explicit limit error)", shape, sig, d, detail));
                }
                Err(e) => fail(format!("VERIF-SIDE-FAIL obligation=side/C10/deep_nesting_{} sig=could-not-spawn depth={} {}", shape, d, e)),
            }
        }
    }
    cases
}

#[test]
fn verif_side_c10() {
    let seed: u64 = std::env::var("VERIF_SEED").ok().and_then(|s| s.parse().ok()).unwrap_or(0);
    let extra: usize = std::env::var("VERIF_ITERS").ok().and_then(|s| s.parse().ok()).unwrap_or(4);
    let mut sizes: Vec<usize> = vec![0, 1, 2, 3, 17, 100, 200, 250, 253, 254, 255, 256, 257, 258, 300, 511, 512, 513, 600];
    let mut z = seed ^ 0xC10;
    for _ in 0..extra {
        z = z.wrapping_mul(6364136223846793005).wrapping_add(1442695040888963407);
        sizes.push(200 + ((z >> 33) % 500) as usize);
    }
    // keep panic messages out of the test output
    std::panic::set_hook(Box::new(|_| {}));
    let mut cases = 0usize;
    let mut fails = 0usize;
    for &n in &sizes {
        for (family, src, want) in programs(n) {
            cases += 1;
            let got = run(&src);
            let ok = match &got {
                Outcome::Num(v) => *v == want,
                // an explicit refusal before running is allowed by the property for ONE oversized construct, but
                // "limits are per construct, never cumulative": a sequence of individually small statements must run
                Outcome::Err(e) => !family.ends_with("_sequence") && (e.contains("Too many") || e.contains("too many") || e.contains("limit")),
                _ => false,
            };
            if !ok && fails < 16 {
                fails += 1;
                let g = format!("{:?}", got);
                println!("VERIF-SIDE-FAIL obligation=side/C10/{} n={} got={} want={} (or an explicit limit error)", family, n, &g[..g.len().min(300)], want);
            }
        }
    }
    for &n in &[60000usize, 65530, 65536, 70000] {
        for (family, src, want) in wide_programs(n) {
            cases += 1;
            let got = run(&src);
            let ok = matches!(&got, Outcome::Num(v) if *v == want);
            if !ok && fails < 40 {
                fails += 1;
                let g = format!("{:?}", got);
                // signature of the failure, independent of message wording: used to identify known findings
                let sig = match &got {
                    Outcome::Err(e) if e.to_lowercase().contains("constant") => format!("refused:constants@n{}65536", if n >= 65536 { ">=" } else { "<" }),
                    Outcome::Err(e) if e.to_lowercase().contains("register") => "refused:registers".to_string(),
                    Outcome::Err(_) => "refused:other".to_string(),
                    Outcome::Num(_) | Outcome::Str(_) | Outcome::Other(_) => "wrong-value".to_string(),
                    Outcome::Panic(_) => "panic".to_string(),
                };
                println!("VERIF-SIDE-FAIL obligation=side/C10/{} sig={} n={} got={} want={} (a sequence of small statements must be accepted)", family, sig, n, &g[..g.len().min(300)], want);
            }
        }
    }
    for &n in &[4096usize, 65535, 65536, 70000] {
        for (family, src, want) in programs(n).into_iter().filter(|p| p.0.starts_with("spread_")) {
            cases += 1;
            let got = run(&src);
            let ok = match &got {
                Outcome::Num(v) => *v == want,
                Outcome::Err(e) => e.contains("Too many") || e.contains("too many") || e.contains("limit") || e.contains("Maximum call stack"),
                _ => false,
            };
            if !ok && fails < 40 {
                fails += 1;
                let g = format!("{:?}", got);
                println!("VERIF-SIDE-FAIL obligation=side/C10/{} n={} got={} want={} (or an explicit limit error)", family, n, &g[..g.len().min(300)], want);
            }
        }
    }
    for &(outer, inner) in &[(10usize, 10usize), (250, 270), (300, 250)] {
        cases += 1;
        let (src, want) = many_small_functions(outer, inner);
        let got = run(&src);
        let ok = matches!(&got, Outcome::Num(v) if *v == want);
        if !ok && fails < 40 {
            fails += 1;
            let g = format!("{:?}", got);
            println!("VERIF-SIDE-FAIL obligation=side/C10/many_small_functions_sequence sig=distinct-strings-across-chunks n={} got={} want={} (no single construct is large)", outer * inner, &g[..g.len().min(300)], want);
        }
    }
    let _ = std::panic::take_hook();
    let mut deep_fails: Vec<String> = Vec::new();
    cases += deep_nesting_cases(&mut |l| deep_fails.push(l));
    for l in deep_fails.iter().take(40) {
        println!("{}", l);
    }
    println!("VERIF-SIDE-DONE cases={}", cases);
}
