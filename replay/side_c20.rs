// Native replay battery for the C20 side obligation (DESIGN §4.2): the link between the contracted
// span-recording layer (builder / source map / lexer positions) and what a user sees - parser spans,
// set_span discipline in compile_*, build_stack_trace - which no verifier here can reach.
// Programs with a fault planted at a generator-known position, under layout transformations; the
// generator tracks (line, column) of every marked piece itself (columns count characters, as the lexer does).
//   every reported frame lies inside the offending expression on the right line,
//   the trace lists exactly the active calls, innermost first, with the enclosing functions' names.
//   VERIF-SIDE-FAIL obligation=side/C20/<family> <program id> got=<..> want=<..>
//   VERIF-SIDE-DONE cases=<n>
use crate::{Interpreter, JsError, ModulePath, StepResult};

struct Src {
    text: String,
    line: u32,
    col: u32,
}
impl Src {
    fn new() -> Self {
        Src { text: String::new(), line: 1, col: 1 }
    }
    fn put(&mut self, s: &str) {
        for ch in s.chars() {
            self.text.push(ch);
            if ch == '\n' || ch == '\u{2028}' || ch == '\u{2029}' {
                self.line += 1;
                self.col = 1;
            } else {
                self.col += 1;
            }
        }
    }
    // put `s` and return its (line, first column, last column)
    fn mark(&mut self, s: &str) -> (u32, u32, u32) {
        let (l, c) = (self.line, self.col);
        self.put(s);
        (l, c, c + s.chars().count() as u32 - 1)
    }
}

#[derive(Clone, Copy)]
struct Layout {
    nl: &'static str,       // line ending
    indent: &'static str,   // indentation
    pad: &'static str,      // inserted before statements on their own line(s)
    inline_pad: &'static str, // inserted on the same line before the fault
}

const LAYOUTS: [Layout; 9] = [
    Layout { nl: "\n", indent: "  ", pad: "", inline_pad: "" },
    Layout { nl: "\r\n", indent: "\t", pad: "", inline_pad: "" },
    Layout { nl: "\n", indent: "    ", pad: "// a comment line\n\n", inline_pad: "/* c */ " },
    Layout { nl: "\n", indent: "  ", pad: "/* multi\n   line \u{e9}\u{e9} */\n", inline_pad: "let s1 = \"\u{e9}\u{4e16}\u{754c}\"; " },
    Layout { nl: "\r\n", indent: "  ", pad: "// \u{4e16}\u{754c}\r\n", inline_pad: "/* \u{e9} */ " },
    Layout { nl: "\n", indent: "", pad: "\n\n\n", inline_pad: "void 0; " },
    Layout { nl: "\n", indent: "  ", pad: "", inline_pad: "let t = `a${1}b`; " },
    // multi-line template literals (CRLF and LF inside the literal) before the fault
    Layout { nl: "\r\n", indent: "  ", pad: "void `l1\r\nl2 ${1}\r\n\r\nl4`;\r\n", inline_pad: "" },
    Layout { nl: "\n", indent: "\t", pad: "void `l1\nl2 ${`in\nner`}\n`;\n", inline_pad: "void `x\ny`; " },
];

struct Expect {
    name: Option<String>,
    line: u32,
    col_lo: u32,
    col_hi: u32,
}

// a chain f0 -> f1 -> ... -> f{depth-1}; the innermost function faults
fn chain_program(depth: usize, fault: usize, lay: Layout) -> (String, Vec<Expect>, &'static str) {
    let mut s = Src::new();
    let mut frames_rev: Vec<Expect> = Vec::new(); // outermost call first
    // innermost first in the file, so that positions differ per function
    let mut fault_frame = None;
    for i in (0..depth).rev() {
        s.put(lay.pad);
        s.put(&format!("function f{}(a{}) {{{}", i, if i % 2 == 0 { ": number" } else { "" }, lay.nl));
        s.put(lay.indent);
        s.put(&format!("let k{} = a + {};{}", i, i, lay.nl));
        s.put(lay.pad);
        s.put(lay.indent);
        s.put(lay.inline_pad);
        if i == depth - 1 {
            let (kind_txt, m) = match fault {
                0 => {
                    s.put("return ");
                    let m = s.mark("undefinedVariable");
                    s.put(&format!(" + k{};", i));
                    ("ReferenceError", m)
                }
                1 => {
                    s.put("let o: any = null; return ");
                    let m = s.mark("o.x");
                    s.put(";");
                    ("TypeError", m)
                }
                _ => {
                    s.put("return ");
                    let m = s.mark("k0notafunction(1)");
                    s.put(";");
                    ("ReferenceError", m)
                }
            };
            let _ = kind_txt;
            fault_frame = Some(Expect { name: Some(format!("f{}", i)), line: m.0, col_lo: m.1, col_hi: m.2 });
        } else {
            s.put("return ");
            let m = s.mark(&format!("f{}(k{})", i + 1, i));
            s.put(" + 1;");
            frames_rev.push(Expect { name: Some(format!("f{}", i)), line: m.0, col_lo: m.1, col_hi: m.2 });
        }
        s.put(lay.nl);
        s.put(&format!("}}{}", lay.nl));
    }
    s.put(lay.pad);
    let top = s.mark("f0(1)");
    s.put(&format!(";{}", lay.nl));
    // expected trace: innermost first
    let mut want: Vec<Expect> = Vec::new();
    if let Some(f) = fault_frame {
        want.push(f);
    }
    // frames_rev was pushed for i = depth-2 .. 0, i.e. innermost callers first already
    want.extend(frames_rev);
    want.push(Expect { name: None, line: top.0, col_lo: top.1, col_hi: top.2 });
    let kind = match fault { 1 => "TypeError", _ => "ReferenceError" };
    (s.text, want, kind)
}

fn run(src: &str) -> Result<String, JsError> {
    let mut interp = Interpreter::new();
    interp.prepare(src, Some(ModulePath::new("/main.ts")))?;
    loop {
        match interp.step()? {
            StepResult::Continue => continue,
            other => return Ok(format!("{:?}", core::mem::discriminant(&other))),
        }
    }
}

// a trace that crosses a module boundary: /main.ts calls into /lib.ts; every frame must name its OWN file
// (a frame without a file is tolerated - the unchanged tree reports constructors that way - a wrong file is not)
fn cross_module_case(lay: Layout, through_constructor: bool) -> Result<(Vec<crate::error::StackFrame>, Vec<(Option<String>, &'static str, u32)>), String> {
    let mut lib = Src::new();
    lib.put(lay.pad);
    lib.put(&format!("export function libInner(a: number) {{{}", lay.nl));
    lib.put(lay.indent);
    lib.put(lay.inline_pad);
    lib.put("return ");
    let m_inner = lib.mark("undefinedInLib");
    lib.put(&format!(" + a;{}}}{}", lay.nl, lay.nl));
    lib.put(&format!("export function libOuter(a: number) {{{}", lay.nl));
    lib.put(lay.indent);
    lib.put("return ");
    let m_outer = lib.mark("libInner(a)");
    lib.put(&format!(";{}}}{}", lay.nl, lay.nl));

    let mut main = Src::new();
    main.put(&format!("import {{ libOuter }} from \"./lib.ts\";{}", lay.nl));
    main.put(lay.pad);
    let m_call;
    let m_top;
    if through_constructor {
        main.put(&format!("class Widget {{{}", lay.nl));
        main.put(lay.indent);
        main.put(&format!("v: number;{}", lay.nl));
        main.put(lay.indent);
        main.put("constructor() { this.v = ");
        m_call = main.mark("libOuter(1)");
        main.put(&format!("; }}{}}}{}", lay.nl, lay.nl));
        m_top = main.mark("new Widget()");
        main.put(&format!(";{}", lay.nl));
    } else {
        main.put(&format!("function mainFn() {{{}", lay.nl));
        main.put(lay.indent);
        main.put("return ");
        m_call = main.mark("libOuter(1)");
        main.put(&format!(";{}}}{}", lay.nl, lay.nl));
        m_top = main.mark("mainFn()");
        main.put(&format!(";{}", lay.nl));
    }
    let mut interp = Interpreter::new();
    interp.prepare(&main.text, Some(ModulePath::new("/main.ts"))).map_err(|e| format!("prepare: {:?}", e))?;
    let mut provided = false;
    let stack = loop {
        match interp.step() {
            Ok(StepResult::Continue) => continue,
            Ok(StepResult::NeedImports(reqs)) => {
                if provided {
                    return Err("imports requested twice".to_string());
                }
                provided = true;
                for r in reqs {
                    interp.provide_module(r.resolved_path.clone(), &lib.text).map_err(|e| format!("provide_module: {:?}", e))?;
                }
            }
            Ok(other) => return Err(format!("completed without the planted error: {:?}", core::mem::discriminant(&other))),
            Err(JsError::RuntimeError { stack, .. }) => break stack,
            Err(e) => return Err(format!("error without a trace: {:?}", format!("{:?}", e).chars().take(160).collect::<String>())),
        }
    };
    let want = vec![
        (Some("libInner".to_string()), "/lib.ts", m_inner.0),
        (Some("libOuter".to_string()), "/lib.ts", m_outer.0),
        (if through_constructor { Some("Widget".to_string()) } else { Some("mainFn".to_string()) }, "/main.ts", m_call.0),
        (None, "/main.ts", m_top.0),
    ];
    Ok((stack, want))
}

// the fault in different statement / expression contexts: the innermost frame must point into the offending token
fn context_programs(lay: Layout) -> Vec<(&'static str, String, (u32, u32, u32))> {
    let ctx: Vec<(&'static str, &'static str, &'static str)> = vec![
        ("if_condition", "if (", ") { k = 1; }"),
        ("while_condition", "while (", ") { k = 1; }"),
        ("for_test_clause", "for (let i = 0; i < ", "; i++) { k = 1; }"),
        ("for_update_clause", "for (let i = 0; i < 2; i += ", ") { k = 2; }"),
        ("switch_case_body", "switch (k) { case 0: k = ", "; break; case 1: k = 5; break; }"),
        ("array_element", "let arr = [1, 2, ", ", 4];"),
        ("object_literal_value", "let obj = { a: 1, b: ", ", c: 3 };"),
        ("call_argument", "k = Math.max(1, ", ", 3);"),
        ("template_substitution", "let t = `x${", "}y`;"),
        ("conditional_branch", "k = k === 0 ? ", " : 1;"),
        ("binary_right_operand", "k = 1 + 2 * ", ";"),
        ("assignment_rhs", "k = ", ";"),
        ("var_initialiser", "let fresh = ", ";"),
        ("return_value", "return ", ";"),
        ("member_object", "k = ", ".length;"),
        ("compound_assignment", "k += ", ";"),
        ("logical_right_operand", "k = k === 0 && ", ";"),
        ("spread_element", "let arr2 = [...[1], ", "];"),
        ("method_call_argument", "k = [1, 2].indexOf(", ");"),
        ("method_call_second_argument", "k = [1, 2].indexOf(2, ", ");"),
        ("new_argument", "let d = new Array(1, ", ");"),
        ("own_function_argument", "k = host2(k, ", ");"),
        ("argument_on_its_own_line", "k = Math.max(1,\n        2,\n        ", ",\n        3);"),
        ("callee_position", "k = ", "(1, 2);"),
        ("computed_member_key", "k = [1, 2][", "];"),
        ("unary_operand", "k = -", ";"),
        ("typeof_free_call", "k = String(typeof k) + ", ";"),
        ("throw_argument", "throw ", ";"),
        ("nested_call_argument", "k = Math.max(Math.min(1, ", "), 3);"),
    ];
    let mut out = Vec::new();
    for (name, pre, post) in ctx {
        let mut s = Src::new();
        s.put(lay.pad);
        s.put(&format!("function host2(a: number, b: number) {{ return a + b; }}{}", lay.nl));
        s.put(&format!("function host(a: number) {{{}", lay.nl));
        s.put(lay.indent);
        s.put(&format!("let k = 0;{}", lay.nl));
        s.put(lay.pad);
        s.put(lay.indent);
        s.put(lay.inline_pad);
        s.put(pre);
        let m = s.mark("undefinedVariable");
        s.put(post);
        s.put(lay.nl);
        s.put(lay.indent);
        s.put(&format!("return k;{}}}{}", lay.nl, lay.nl));
        s.put(&format!("host(1);{}", lay.nl));
        out.push((name, s.text, m));
    }
    out
}

#[test]
fn verif_side_c20() {
    let extra: usize = std::env::var("VERIF_ITERS").ok().and_then(|s| s.parse().ok()).unwrap_or(0);
    let mut depths = vec![1usize, 2, 3, 6, 9, 10, 11, 12];
    if extra > 0 {
        depths.extend([4, 5, 7, 8]);
    }
    let mut cases = 0usize;
    let mut fails = 0usize;
    let mut fail = |name: &str, what: String| {
        if fails < 12 {
            fails += 1;
            println!("VERIF-SIDE-FAIL obligation=side/C20/{} {}", name, what);
        }
    };
    for (li, lay) in LAYOUTS.iter().enumerate() {
        for &depth in &depths {
            for fault in 0..3usize {
                cases += 1;
                let (src, want, kind) = chain_program(depth, fault, *lay);
                let id = format!("layout={} depth={} fault={}", li, depth, fault);
                match run(&src) {
                    Ok(v) => fail("runtime_fault_reported", format!("{} got=completed {} want={} with a trace", id, v, kind)),
                    Err(JsError::RuntimeError { kind: k, stack, .. }) => {
                        if k != kind {
                            fail("runtime_fault_reported", format!("{} got kind {} want {}", id, k, kind));
                        }
                        if stack.len() != want.len() {
                            let names: Vec<String> = stack.iter().map(|f| format!("{:?}@{}:{}", f.function_name, f.line, f.column)).collect();
                            fail("trace_lists_exactly_the_active_calls", format!("{} got {} frames {:?} want {}", id, stack.len(), names, want.len()));
                            continue;
                        }
                        for (j, (g, w)) in stack.iter().zip(want.iter()).enumerate() {
                            if g.function_name != w.name {
                                fail("frame_function_names_innermost_first", format!("{} frame {} got {:?} want {:?}", id, j, g.function_name, w.name));
                            }
                            if g.line != w.line || g.column < w.col_lo || g.column > w.col_hi {
                                fail("frame_position_inside_offending_expression",
                                     format!("{} frame {} ({:?}) got {}:{} want line {} columns {}..={}", id, j, g.function_name, g.line, g.column, w.line, w.col_lo, w.col_hi));
                            }
                            if g.file.as_deref() != Some("/main.ts") {
                                fail("frame_names_the_file", format!("{} frame {} got file {:?}", id, j, g.file));
                            }
                        }
                    }
                    Err(e) => fail("runtime_fault_reported", format!("{} got error without a trace: {:?}", id, format!("{:?}", e).chars().take(160).collect::<String>())),
                }
            }
        }
        // syntax faults: the location is the offending token
        for (fi, (pre, bad, post)) in [("let x = ", ";", ""), ("let y = (1 + ", ")", ";"), ("function g( {", "", ""),
                                      ("let z = 1 +", "*", " 2;"), ("let q = `abc ${1 + ", "}", " def`;"), ("class K { m( { } ", "}", ""),
                                      ("let a = [1, 2", ";", ""), ("ok = ", "=", " 2;"), ("let u = 1 ", "@", " 2;"), ("let v = 08", "x", ";"),
                                      ("if (ok) { ok = 2; } else ", ")", ";"), ("let o = { a: 1, ", "+", " };"), ("for (let i = 0; i < 3; i++ ", ";", ") {}"),
                                      ("let f = (a, b) => ", "]", ";"), ("let s = 'x' + \"\u{e9}\u{4e16}\" + ", ")", ";"), ("switch (ok) { case 1: case ", "}", ""),
                                      // early errors found by the compiler, and strings that reach the end of their line
                                      ("", "break", ";"), ("while (ok) { ", "break nope", "; }"), ("function q() { for (;;) { } ", "continue", "; }"),
                                      ("let c = ", "(ok + 1)++", ";"), ("class P { m() { return ", "this.#nope", "; } }"),
                                      ("let b = String(", "'abc, 2);", ""), ("let b = ", "\"abc", "")].iter().enumerate() {
            if bad.is_empty() {
                continue;
            }
            cases += 1;
            let mut s = Src::new();
            s.put(lay.pad);
            s.put(&format!("let ok = 1;{}", lay.nl));
            s.put(lay.pad);
            s.put(lay.indent);
            s.put(lay.inline_pad);
            s.put(pre);
            let m = s.mark(bad);
            s.put(post);
            s.put(lay.nl);
            let id = format!("layout={} syntax={}", li, fi);
            match run(&s.text) {
                Err(JsError::SyntaxError { location, .. }) => {
                    if location.line != m.0 || location.column < m.1 || location.column > m.2 {
                        fail("syntax_error_position_is_offending_token", format!("{} got {}:{} want {}:{}", id, location.line, location.column, m.0, m.1));
                    }
                    if location.file.as_deref() != Some("/main.ts") {
                        fail("syntax_error_names_its_file", format!("{} got file {:?} want /main.ts", id, location.file));
                    }
                }
                other => fail("syntax_error_position_is_offending_token", format!("{} got {:?} want SyntaxError", id, format!("{:?}", other).chars().take(120).collect::<String>())),
            }
        }
    }
    for (li, lay) in LAYOUTS.iter().enumerate() {
        for (name, src, m) in context_programs(*lay) {
            cases += 1;
            let id = format!("context={} layout={}", name, li);
            match run(&src) {
                Err(JsError::RuntimeError { stack, .. }) => match stack.first() {
                    Some(f) => {
                        if f.line != m.0 || f.column < m.1 || f.column > m.2 || f.function_name.as_deref() != Some("host") {
                            fail("fault_position_in_every_statement_context", format!("{} innermost frame {:?}@{}:{} want host@{}:{}..={}", id, f.function_name, f.line, f.column, m.0, m.1, m.2));
                        }
                    }
                    None => fail("fault_position_in_every_statement_context", format!("{} empty trace", id)),
                },
                other => fail("fault_position_in_every_statement_context", format!("{} got {:?}", id, format!("{:?}", other).chars().take(140).collect::<String>())),
            }
        }
    }
    // call shapes: (program, expected frames innermost first as (name, line)); names ("*" = any) and lines must match
    // exactly and every frame must name /main.ts.  The 2nd..5th were genuine defects of the pinned tree (known_findings.txt,
    // fixed: 5b859d5 8cff870 76a2deb); a deviation is classified by a wording-independent signature.
    let shapes: Vec<(&str, &str, &str, Vec<(Option<&str>, u32)>)> = vec![
        ("class_method_chain", "ok",
         "class K {\n  v = 1;\n  m(a: number) {\n    return undefinedVariable + a;\n  }\n  static s() { return new K().m(1); }\n}\nfunction viaStatic() { return K.s(); }\nviaStatic();\n",
         vec![(Some("m"), 4), (Some("s"), 6), (Some("viaStatic"), 8), (None, 9)]),
        ("object_literal_method", "ok",
         "const o = { go(a: number) { return undefinedVariable + a; } };\nfunction caller() { return o.go(1); }\ncaller();\n",
         vec![(Some("go"), 1), (Some("caller"), 2), (None, 3)]),
        ("object_literal_function_value", "ok",
         "const o = {\n  'k': function (a: number) { return undefinedVariable + a; },\n  ar: (a: number) => o.k(a),\n};\nfunction caller() { return o.ar(1); }\ncaller();\n",
         vec![(Some("k"), 2), (Some("ar"), 3), (Some("caller"), 5), (None, 6)]),
        ("arrow_function_frame", "ok",
         "const arrowFn = (a: number) => undefinedVariable + a;\nfunction callsArrow() { return arrowFn(1); }\ncallsArrow();\n",
         vec![(Some("arrowFn"), 1), (Some("callsArrow"), 2), (None, 3)]),
        ("constructor_frames", "ok",
         "class A {\n  v: number;\n  constructor(x: number) {\n    this.v = undefinedVariable + x;\n  }\n}\nclass B extends A { w = 1; }\nfunction make() { return new B(1); }\nmake();\n",
         vec![(Some("A"), 4), (Some("B"), 7), (Some("make"), 8), (None, 9)]),
        ("field_initialiser", "ok",
         "class B { w = 1; }\nclass C extends B {\n  z = undefinedVariable;\n}\nfunction make() { return new C(); }\nmake();\n",
         vec![(Some("C"), 3), (Some("make"), 5), (None, 6)]),
        ("native_callback", "ok",
         "function cb(x: number) { return undefinedVariable + x; }\nfunction useMap() { return [1, 2].map(cb); }\nuseMap();\n",
         vec![(Some("cb"), 1), (Some("useMap"), 2), (None, 3)]),
        ("nested_native_callbacks", "ok",
         "function cb(x: number) { return undefinedVariable + x; }\nfunction inner() { return [1, 2].map(cb); }\nfunction mid(y: number) {\n  return [y].forEach(function each() { inner(); });\n}\nmid(1);\n",
         vec![(Some("cb"), 1), (Some("inner"), 2), (Some("each"), 4), (Some("mid"), 4), (None, 6)]),
        ("generator_body", "ok",
         "function* gen() { yield undefinedVariable; }\nfunction drive() { const g = gen(); return g.next(); }\ndrive();\n",
         vec![(Some("gen"), 1), (Some("drive"), 2), (None, 3)]),
        ("generator_calls_function", "ok",
         "function leaf() { return undefinedVariable; }\nfunction* gen() {\n  yield 1;\n  yield leaf();\n}\nfunction drive() {\n  const g = gen();\n  g.next();\n  return g.next();\n}\ndrive();\n",
         vec![(Some("leaf"), 1), (Some("gen"), 4), (Some("drive"), 9), (None, 11)]),
        ("getter_body", "ok",
         "const o = { get p() { return undefinedVariable; } };\nfunction readsGetter() { return o.p; }\nreadsGetter();\n",
         vec![(Some("*"), 1), (Some("readsGetter"), 2), (None, 3)]),
        ("prologue_destructuring_function", "ok",
         "function f({ a: { b } }: any) { return b; }\nfunction g() {\n  return f({});\n}\ng();\n",
         vec![(Some("f"), 1), (Some("g"), 3), (None, 5)]),
        ("prologue_destructuring_arrow", "ok",
         "const h = (\n  { a: { b } }: any) => b;\nfunction g() {\n  return h({});\n}\ng();\n",
         vec![(Some("h"), 2), (Some("g"), 4), (None, 6)]),
        ("prologue_destructuring_constructor", "ok",
         "class K {\n  constructor(x: number,\n    { a: { b } }: any) {}\n}\nfunction g() {\n  return new K(1, {});\n}\ng();\n",
         vec![(Some("K"), 3), (Some("g"), 6), (None, 8)]),
        ("prologue_array_pattern_method", "ok",
         "class K {\n  m([x]: any) { return x; }\n}\nfunction g() {\n  return new K().m(undefined);\n}\ng();\n",
         vec![(Some("m"), 2), (Some("g"), 5), (None, 7)]),
        ("object_literal_accessors", "ok",
         "const o: any = {\n  get v() { return undefinedVariable; },\n  set w(x: number) { this.v; },\n};\nfunction g() { o.w = 1; }\ng();\n",
         vec![(Some("v"), 2), (Some("w"), 3), (Some("g"), 5), (None, 6)]),
        ("assigned_function_expression", "ok",
         "let f: any;\nf = function () { return undefinedVariable; };\nfunction g() { return f(); }\ng();\n",
         vec![(Some("f"), 2), (Some("g"), 3), (None, 4)]),
        ("class_field_functions", "ok",
         "class K {\n  handler = () => { return undefinedVariable; };\n  static sh = function () { return new K().handler(); };\n}\nfunction g() { return K.sh(); }\ng();\n",
         vec![(Some("handler"), 2), (Some("sh"), 3), (Some("g"), 5), (None, 6)]),
        ("default_parameter_function", "ok",
         "function run(cb = () => undefinedVariable) {\n  return cb();\n}\nrun();\n",
         vec![(Some("cb"), 1), (Some("run"), 2), (None, 4)]),
        // KNOWN FINDING on the unchanged tree (known_findings.txt): yield* runs the inner generator natively, outside the
        // delegating generator's VM, so the delegating generator `outer` has no frame
        ("generator_delegation", "sig=yield-star-delegator-frame-missing",
         "function* inner() {\n  yield 1;\n  undefinedVariable;\n}\nfunction* outer() {\n  yield* inner();\n}\nfunction go() {\n  const it = outer();\n  it.next();\n  it.next();\n}\ngo();\n",
         vec![(Some("inner"), 3), (Some("outer"), 6), (Some("go"), 11), (None, 13)]),
        ("sort_comparator", "ok",
         "function cmp(a: number, b: number) { return undefinedVariable + a - b; }\nfunction sorts() {\n  return [3, 1, 2].sort(cmp);\n}\nsorts();\n",
         vec![(Some("cmp"), 1), (Some("sorts"), 3), (None, 5)]),
    ];
    // a byte order mark at the start of the source takes no column
    cases += 1;
    match run("\u{FEFF}undefinedVariable;\nlet z = 1;\n") {
        Err(JsError::RuntimeError { stack, .. }) => {
            let ok = stack.first().map(|f| f.line == 1 && f.column == 1).unwrap_or(false);
            if !ok {
                fail("leading_bom_takes_no_column", format!("got {:?} want 1:1", stack.first().map(|f| (f.line, f.column))));
            }
        }
        other => fail("leading_bom_takes_no_column", format!("got {:?}", format!("{:?}", other).chars().take(120).collect::<String>())),
    }
    // KNOWN FINDING on the unchanged tree: a lone CR (old Mac line ends) is a LineTerminator in the language but the lexer
    // does not count it as a line end, so every position of a CR-only file is on line 1
    cases += 1;
    match run("let a = 1;\rlet b = 2;\rundefinedVariable;\r") {
        Err(JsError::RuntimeError { stack, .. }) => {
            let got = stack.first().map(|f| (f.line, f.column));
            if got != Some((3, 1)) {
                let sig = if got.map(|g| g.0) == Some(1) { "lone-CR-not-a-line-end" } else { "other" };
                fail("lone_cr_line_ends", format!("sig={} got {:?} want (3, 1)", sig, got));
            }
        }
        other => fail("lone_cr_line_ends", format!("sig=other got {:?}", format!("{:?}", other).chars().take(120).collect::<String>())),
    }
    for (shape, sig, src, want) in shapes {
        cases += 1;
        let obl = format!("call_shape_{}", shape);
        match run(src) {
            Err(JsError::RuntimeError { stack, .. }) => {
                let got: Vec<String> = stack.iter().map(|f| format!("{}@{}:{}", f.function_name.as_deref().unwrap_or("<anonymous>"), f.file.as_deref().unwrap_or("<no file>"), f.line)).collect();
                let name_ok = |g: &Option<String>, w: &Option<&str>| *w == Some("*") || g.as_deref() == *w;
                let ok = stack.len() == want.len() && stack.iter().zip(want.iter()).all(|(g, w)| {
                    name_ok(&g.function_name, &w.0) && g.line == w.1 && g.file.as_deref() == Some("/main.ts")
                });
                if !ok {
                    // classify the deviation: the signature names exactly the known one, anything else gets its own
                    let names_ok = stack.len() == want.len() && stack.iter().zip(want.iter()).all(|(g, w)| name_ok(&g.function_name, &w.0) && g.line == w.1);
                    let files_missing_only = names_ok && stack.iter().all(|g| g.file.is_none() || g.file.as_deref() == Some("/main.ts"));
                    let prefix_only = stack.len() < want.len() && stack.iter().zip(want.iter()).all(|(g, w)| name_ok(&g.function_name, &w.0) && g.line == w.1);
                    let anon_first_only = stack.len() == want.len() && stack.first().map(|g| g.function_name.is_none()).unwrap_or(false)
                        && stack.iter().zip(want.iter()).skip(1).all(|(g, w)| name_ok(&g.function_name, &w.0) && g.line == w.1)
                        && stack.first().map(|g| g.line) == want.first().map(|w| w.1);
                    // exactly the frames at want[1..len-2] (the delegating generators) missing, everything else right
                    let delegators_missing_only = shape == "generator_delegation" && stack.len() == 3 && want.len() == 4
                        && [0usize, 2, 3].iter().zip(stack.iter()).all(|(wi, g)| name_ok(&g.function_name, &want[*wi].0) && g.line == want[*wi].1 && g.file.as_deref() == Some("/main.ts"));
                    let observed = if delegators_missing_only { "yield-star-delegator-frame-missing" } else if files_missing_only { "frame-without-file" } else if prefix_only { "trace-truncated-at-nested-vm" } else if anon_first_only { "innermost-frame-anonymous" } else { "other" };
                    fail(&obl, format!("sig={} shape={} got {:?} want {:?} (expected on the unchanged tree: {})", observed, shape, got, want, sig));
                }
            }
            other => fail(&obl, format!("sig=other shape={} got {:?}", shape, format!("{:?}", other).chars().take(140).collect::<String>())),
        }
    }
    for (li, lay) in LAYOUTS.iter().enumerate() {
        for through_constructor in [false, true] {
            cases += 1;
            let id = format!("cross-module layout={} constructor={}", li, through_constructor);
            match cross_module_case(*lay, through_constructor) {
                Err(e) => fail("cross_module_trace_reported", format!("{} {}", id, e)),
                Ok((stack, want)) => {
                    if stack.len() != want.len() {
                        let names: Vec<String> = stack.iter().map(|f| format!("{:?}@{:?}:{}", f.function_name, f.file, f.line)).collect();
                        fail("trace_lists_exactly_the_active_calls", format!("{} got {} frames {:?} want {}", id, stack.len(), names, want.len()));
                        continue;
                    }
                    for (j, (g, w)) in stack.iter().zip(want.iter()).enumerate() {
                        // a frame may lack a file (constructors on the unchanged tree) but must never name the wrong one
                        if let Some(f) = &g.file {
                            if f != w.1 {
                                fail("frame_names_its_own_file", format!("{} frame {} ({:?}) names {:?}, it is in {}", id, j, g.function_name, f, w.1));
                            }
                        }
                        if g.line != w.2 {
                            fail("frame_position_inside_offending_expression", format!("{} frame {} ({:?}) line {} want {}", id, j, g.function_name, g.line, w.2));
                        }
                    }
                }
            }
        }
    }
    println!("VERIF-SIDE-DONE cases={}", cases);
}
